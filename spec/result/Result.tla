--------------------------------- MODULE Result ---------------------------------
(* M for C13: result.merge_results as the code does it: key check on dict views, *)
(* strategy "average" iff all results have the same array size PER KEY (Legacy:  *)
(* the same LIST of sizes in each dict's own order), deep copy of the first,     *)
(* sum / append, divide.  TLC enumerates lists of 1..3 results incl. different   *)
(* insertion orders, empty arrays and one differing key, checks M => P.          *)
EXTENDS ResultProps, TLC, Json
CONSTANTS Legacy, Emit, MaxR, Light
VARIABLES rs, o, pc
vars == <<rs, o, pc>>
Perms2(a, b) == {<<a, b>>, <<b, a>>}
Arr(tag, n) == [i \in 1..n |-> 10 * tag + i]
\* result number t: stat values, array lengths la/lb, insertion orders, optionally an extra or missing key
Results(t) ==
  {[stats |-> st, arrays |-> ar, info |-> t] :
      st \in UNION {Perms2(<<"rmse", v>>, <<"mean", w>>) : v \in {0, 3}, w \in {1}}
               \cup (IF t = 2 THEN {<<<<"rmse", 1>>>>, <<<<"rmse", 1>>, <<"mean", 1>>, <<"max", 2>>>>} ELSE {}),
      ar \in UNION {Perms2(<<"err", Arr(t, la)>>, <<"ts", Arr(t + 3, lb)>>) : la \in 0..2, lb \in 1..2}
               \cup (IF t = 2 THEN {<<<<"err", Arr(t, 2)>>>>} ELSE {})}
\* light family: three results with one statistic and one array each, all length patterns
LightResult(t, la) == [stats |-> <<<<"rmse", t>>>>, arrays |-> <<<<"err", Arr(t, la)>>>>, info |-> t]
Init == /\ pc = "call" /\ o = [out |-> "none"]
        /\ IF Light THEN \E l1, l2, l3 \in 0..3 : rs = <<LightResult(1, l1), LightResult(2, l2), LightResult(3, l3)>>
           ELSE \E n \in 1..MaxR : rs \in [1..n -> UNION {Results(t) : t \in 1..3}] /\ \A k \in 1..n : rs[k].info = k

Sizes(r) == [k \in DOMAIN r.arrays |-> Len(r.arrays[k][2])]
Average == IF Legacy THEN \A a, b \in DOMAIN rs : Sizes(rs[a]) = Sizes(rs[b])
           ELSE \A key \in Keys(rs[1].arrays) : EqualLen(rs, key)
Call == /\ pc = "call" /\ pc' = "done" /\ UNCHANGED rs
        /\ o' = IF Len(rs) = 1 THEN [out |-> "ok", same |-> TRUE, unchanged |-> TRUE, info |-> rs[1].info,
                                     stats |-> [k \in DOMAIN rs[1].stats |-> <<rs[1].stats[k][1], <<rs[1].stats[k][2], 1>>>>],
                                     arrays |-> [k \in DOMAIN rs[1].arrays |-> <<rs[1].arrays[k][1], [i \in DOMAIN rs[1].arrays[k][2] |-> <<rs[1].arrays[k][2][i], 1>>]>>]]
                ELSE IF ~SameKeys(rs) THEN [out |-> "ResultException", unchanged |-> TRUE]
                ELSE [out |-> "ok", same |-> FALSE, unchanged |-> TRUE, info |-> rs[1].info,
                      stats |-> [k \in DOMAIN rs[1].stats |-> <<rs[1].stats[k][1], <<SumOver(rs, LAMBDA r : Get(r.stats, rs[1].stats[k][1])), Len(rs)>>>>],
                      arrays |-> [k \in DOMAIN rs[1].arrays |->
                                    LET key == rs[1].arrays[k][1] IN
                                    <<key, IF Average
                                           THEN [i \in 1..Len(rs[1].arrays[k][2]) |-> <<SumOver(rs, LAMBDA r : Get(r.arrays, key)[i]), Len(rs)>>]
                                           ELSE LET cc == Concat([j \in DOMAIN rs |-> Get(rs[j].arrays, key)]) IN [i \in DOMAIN cc |-> <<cc[i], 1>>]>>]]
Spec == Init /\ [][Call]_vars
MImpliesP == pc = "done" => MergeVerdict(rs, o) = "ok"
EmitCases == (Emit /\ pc = "call") => PrintT(ToJson(rs))
==============================================================================

SPECIFICATION Spec
CONSTANTS
  Legacy = FALSE
  Emit = TRUE
  MaxR = 3
INVARIANT MImpliesP
INVARIANT EmitCases
CHECK_DEADLOCK FALSE

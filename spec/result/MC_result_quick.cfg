SPECIFICATION Spec
CONSTANTS
  Legacy = FALSE
  Emit = TRUE
  Light = FALSE
  MaxR = 2
INVARIANT MImpliesP
INVARIANT EmitCases
CHECK_DEADLOCK FALSE

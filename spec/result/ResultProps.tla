------------------------------ MODULE ResultProps ------------------------------
(* P for C13.  A result is [stats : Seq(<<key, value>>), arrays : Seq(<<key,   *)
(* Seq(value)>>), info : id] - sequences, because Python dicts remember their  *)
(* insertion order and that order must NOT matter.  Values are integers;       *)
(* merged values are observed as rationals <<num, den>>.                        *)
EXTENDS Integers, Sequences, FiniteSets
Keys(d) == {d[k][1] : k \in DOMAIN d}
Get(d, key) == d[CHOOSE k \in DOMAIN d : d[k][1] = key][2]
\* equality by reduced forms: no cross-multiplication, so large numerators (a wrong observation) cannot overflow TLC's 32-bit integers
RECURSIVE RatGcd(_, _)
RatGcd(a, b) == IF b = 0 THEN a ELSE RatGcd(b, a % b)
RatNorm(a) == LET n == IF a[1] < 0 THEN -a[1] ELSE a[1]
                  g == RatGcd(n, a[2]) IN
              IF g = 0 THEN a ELSE <<a[1] \div g, a[2] \div g>>
RatEq(a, b) == RatNorm(a) = RatNorm(b)
SumOver(rs, F(_)) == LET S[k \in 0..Len(rs)] == IF k = 0 THEN 0 ELSE S[k - 1] + F(rs[k]) IN S[Len(rs)]
Concat(ss) == LET C[k \in 0..Len(ss)] == IF k = 0 THEN <<>> ELSE C[k - 1] \o ss[k] IN C[Len(ss)]

SameKeys(rs) == \A a, b \in DOMAIN rs : Keys(rs[a].stats) = Keys(rs[b].stats) /\ Keys(rs[a].arrays) = Keys(rs[b].arrays)
EqualLen(rs, key) == \A a, b \in DOMAIN rs : Len(Get(rs[a].arrays, key)) = Len(Get(rs[b].arrays, key))
IsMean(rs, key, obs) ==
  /\ Len(obs) = Len(Get(rs[1].arrays, key))
  /\ \A i \in DOMAIN obs : RatEq(obs[i], <<SumOver(rs, LAMBDA r : Get(r.arrays, key)[i]), Len(rs)>>)
IsConcat(rs, key, obs) ==
  LET want == Concat([k \in DOMAIN rs |-> Get(rs[k].arrays, key)]) IN
  Len(obs) = Len(want) /\ \A i \in DOMAIN obs : RatEq(obs[i], <<want[i], 1>>)

\* o = [out, same (returned the input object itself), stats : Seq(<<key, rat>>), arrays : Seq(<<key, Seq(rat)>>), info, unchanged]
MergeVerdict(rs, o) ==
  IF ~SameKeys(rs) THEN (IF o.out = "ResultException" THEN (IF o.unchanged THEN "ok" ELSE "InputModified") ELSE "DifferentKeysNotRefused")
  ELSE IF o.out # "ok" THEN "UnexpectedError"
  ELSE IF ~o.unchanged THEN "InputModified"
  ELSE IF Len(rs) = 1 /\ ~o.same /\ ~(o.info = rs[1].info) THEN "SingleResultChanged"
  ELSE IF o.info # rs[1].info THEN "InfoNotOfFirstResult"
  ELSE IF Keys(o.stats) # Keys(rs[1].stats) \/ Keys(o.arrays) # Keys(rs[1].arrays) THEN "KeysChanged"
  ELSE IF \E key \in Keys(rs[1].stats) : ~RatEq(Get(o.stats, key), <<SumOver(rs, LAMBDA r : Get(r.stats, key)), Len(rs)>>) THEN "StatisticNotTheMean"
  ELSE IF \A key \in Keys(rs[1].arrays) : EqualLen(rs, key)
       THEN (IF \E key \in Keys(rs[1].arrays) : ~IsMean(rs, key, Get(o.arrays, key)) THEN "ArrayNotElementwiseMean" ELSE "ok")
  \* some arrays differ in length: those must be concatenated in input order; equal-length ones may be averaged or concatenated
  ELSE IF \E key \in Keys(rs[1].arrays) : ~EqualLen(rs, key) /\ ~IsConcat(rs, key, Get(o.arrays, key)) THEN "ArrayNotConcatenatedInInputOrder"
  ELSE IF \E key \in Keys(rs[1].arrays) : EqualLen(rs, key) /\ ~IsConcat(rs, key, Get(o.arrays, key)) /\ ~IsMean(rs, key, Get(o.arrays, key))
       THEN "ArrayNeitherMeanNorConcatenation"
  ELSE "ok"

\* ---- the table of evo_res: c = [labels : Seq(expected column labels), merge]; o = [out, labels, cells_ok, keys_ok]
TableVerdict(c, o) ==
  \* two inputs with the same label: refusing is fine, silently dropping one of them is not
  IF c.dup /\ o.out # "ok" THEN "ok"
  ELSE IF o.out # "ok" THEN "TableNotProduced"
  ELSE IF {o.labels[k] : k \in DOMAIN o.labels} # {c.labels[k] : k \in DOMAIN c.labels} \/ Len(o.labels) # Len(c.labels) THEN "WrongColumnLabels"
  ELSE IF ~o.keys_ok THEN "StatisticsMissingOrExtra"
  ELSE IF ~o.cells_ok THEN "CellNotTheStoredStatistic"
  ELSE "ok"
==============================================================================

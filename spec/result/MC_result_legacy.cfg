SPECIFICATION Spec
CONSTANTS
  Legacy = TRUE
  Emit = FALSE
  Light = FALSE
  MaxR = 2
INVARIANT MImpliesP
INVARIANT EmitCases
CHECK_DEADLOCK FALSE

SPECIFICATION Spec
CONSTANTS
  Legacy = TRUE
  Emit = FALSE
  MaxR = 2
INVARIANT MImpliesP
INVARIANT EmitCases
CHECK_DEADLOCK FALSE

-------------------------------- MODULE Select --------------------------------
(* M for C11: the selection operations of evo.core.trajectory / filters as    *)
(* the code computes them (np.linspace index rule, the motion-filter loop,    *)
(* np.where masks, the `jumps` arrays of the split functions, argsort merge). *)
(* TLC enumerates all small inputs per operation (Which), checks M => P       *)
(* (SelectProps) and prints each case with M's answer.                        *)
EXTENDS SelectProps, TLC, Json
CONSTANTS Which, MaxN, StepVals, HeadVals, IncVals, Emit, Bug

VARIABLES t, pc        \* t: the case record incl. M's outcome o
vars == <<t, pc>>
Ident(n) == [k \in 1..n |-> k]
Seqs(S, n) == [1..n -> S]
Cum(f) == [k \in 1..(Len(f) + 1) |-> Sum(f, 1, k - 1)]
Traj(steps, heads, incs) == [steps |-> steps, heads |-> heads, stamps |-> Cum(incs)]
OK(ids) == [out |-> "ok", ids |-> ids, intact |-> TRUE]
Err(e) == [out |-> e, ids |-> <<>>, intact |-> TRUE]

\* ---- np.linspace(0, n-1, N, dtype=int)
MDown(c, N) == LET n == Count(c) IN
  IF n <= N THEN OK(Ident(n))
  ELSE IF N < 1 THEN Err("TrajectoryException")
  ELSE IF N = 1 THEN OK(<<1>>)
  ELSE OK([k \in 1..N |-> IF Bug = "down_noendpoint" THEN 1 + ((k - 1) * (n - 1)) \div N ELSE 1 + ((k - 1) * (n - 1)) \div (N - 1)])
\* Named deviation of the code from exact arithmetic: np.linspace computes k * ((n-1)/(N-1)) in binary floating point and
\* `dtype=int` truncates, so where the exact value is an integer strictly inside the range the product can come out one unit
\* in the last place below it (n = 31, N = 23, k = 12: 11 * (30/22) = 14.999999999999998 -> 14).  MDownLo is the lowest answer
\* this rounding can produce; the code's answer lies pointwise between MDownLo and MDown, and P allows all of them.
MDownLo(c, N) == LET n == Count(c)  hi == MDown(c, N) IN
  IF hi.out # "ok" \/ n <= N \/ N < 3 THEN hi
  ELSE OK([k \in 1..N |-> IF k > 1 /\ k < N /\ ((k - 1) * (n - 1)) % (N - 1) = 0 THEN hi.ids[k] - 1 ELSE hi.ids[k]])
\* ---- filter_by_motion loop
MMotion(c, d, a) ==
  IF Count(c) < 2 THEN Err("FilterException") ELSE
  LET F[i \in 1..Count(c)] ==      \* <<kept ids, previous kept id for distance, previous kept id for angle>>
        IF i = 1 THEN <<<<1>>, 1, 1>>
        ELSE LET p == F[i - 1] IN
             IF Path(c, p[2], i) >= d THEN <<Append(p[1], i), i, i>>
             ELSE IF RelAngle(c, p[3], i) >= a THEN <<Append(p[1], i), IF Bug = "motion_noreset" THEN p[2] ELSE i, i>>
             ELSE p
  IN OK(F[Count(c)][1])
MCrop(c, lo0, hi0) == LET lo == IF lo0 = -1000 THEN c.stamps[1] ELSE lo0
                          hi == IF hi0 = 1000 THEN c.stamps[Count(c)] ELSE hi0 IN
                      IF lo > hi THEN Err("TrajectoryException")
                    ELSE OK(SelectSeq(Ident(Count(c)), LAMBDA k : c.stamps[k] >= lo /\ (IF Bug = "crop_open" THEN c.stamps[k] < hi ELSE c.stamps[k] <= hi)))
\* ---- jumps = [0] + (where(exceeds)+1) + [n]; parts = slices
MSplit(c, Exceeds(_)) ==
  LET n == Count(c)
      cuts == SelectSeq(Ident(n - 1), Exceeds)
      bounds == <<0>> \o cuts \o <<n>>
  IN [out |-> "ok", intact |-> TRUE,
      parts |-> [p \in 1..(Len(bounds) - 1) |-> [k \in 1..(bounds[p + 1] - bounds[p]) |-> bounds[p] + k]]]
MSplitKind(c, kind, th) ==
  CASE kind = "time" -> MSplit(c, LAMBDA k : c.stamps[k + 1] - c.stamps[k] > th)
    [] kind = "distance" -> MSplit(c, LAMBDA k : c.steps[k] > th)
    [] kind = "speed" -> MSplit(c, LAMBDA k : c.steps[k] * 2 > th * (c.stamps[k + 1] - c.stamps[k]))
\* ---- concatenate, argsort by stamp (stable here; numpy's order among equal stamps is unspecified)
MMerge(ins) ==
  LET rows == Concat([i \in DOMAIN ins |-> [k \in 1..Len(ins[i]) |-> <<i, k>>]])
      st(r) == ins[r[1]][r[2]]
      Ins[k \in 0..Len(rows)] ==       \* insertion sort
        IF k = 0 THEN <<>>
        ELSE LET r == rows[k]  s == Ins[k - 1]
                 pos == Cardinality({j \in DOMAIN s : st(s[j]) <= st(r)})
             IN SubSeq(s, 1, pos) \o <<r>> \o SubSeq(s, pos + 1, Len(s))
  IN [out |-> "ok", intact |-> TRUE, rows |-> Ins[Len(rows)]]

Lens == 1..MaxN
Cases ==
  CASE Which = "down" ->
         {[op |-> "down", c |-> Traj([k \in 1..(n - 1) |-> 1], [k \in 1..n |-> 0], [k \in 1..(n - 1) |-> 1]), N |-> N] :
             n \in Lens, N \in 0..(MaxN + 2)}
    [] Which = "motion" ->
         {[op |-> "motion", c |-> Traj(x[1], <<0>> \o Cum(x[2]), [k \in 1..Len(x[1]) |-> 1]), d |-> x[3], a |-> x[4]] :
             x \in UNION {Seqs(StepVals, n - 1) \X Seqs(HeadVals, n - 2) \X {0, 1, 2, 3, 4, 1000} \X {0, 30, 45, 90, 180, 1000} : n \in 2..MaxN}}
    [] Which = "crop" ->
         {[op |-> "crop", c |-> Traj([k \in 1..Len(x[1]) |-> 1], [k \in 1..(Len(x[1]) + 1) |-> 0], x[1]), lo |-> x[2], hi |-> x[3]] :
             x \in UNION {Seqs(IncVals, n - 1) \X ((-1..7) \cup {-1000}) \X ((-1..7) \cup {1000}) : n \in Lens}}
    [] Which = "split" ->
         {[op |-> "split", c |-> Traj(x[1], [k \in 1..(Len(x[1]) + 1) |-> 0], x[2]), kind |-> x[3], th |-> x[4]] :
             x \in UNION {Seqs(StepVals, n - 1) \X Seqs(IncVals, n - 1) \X {"time", "distance", "speed"} \X {0, 1, 2, 3, 4} : n \in Lens}}
    [] Which = "merge" ->
         {[op |-> "merge", ins |-> [i \in 1..3 |-> SelectSeq(<<0, 1, 2, 3, 4, 5>>, LAMBDA s : f[s] = i \/ (f[s] = 4 /\ i < 3))]] :
             f \in [0..5 -> 0..4]}

Outcome(c) ==
  CASE c.op = "down" -> MDown(c.c, c.N)
    [] c.op = "motion" -> MMotion(c.c, c.d, c.a)
    [] c.op = "crop" -> MCrop(c.c, c.lo, c.hi)
    [] c.op = "split" -> MSplitKind(c.c, c.kind, c.th)
    [] c.op = "merge" -> MMerge(c.ins)

Init == pc = "call" /\ t \in Cases
Run == /\ pc = "call" /\ pc' = "done"
       /\ t' = IF t.op = "down" THEN t @@ [o |-> Outcome(t), olo |-> MDownLo(t.c, t.N)] ELSE t @@ [o |-> Outcome(t)]
Spec == Init /\ [][Run]_vars
NonEmpty == t.op = "merge" => \E i \in DOMAIN t.ins : Len(t.ins[i]) > 0
MImpliesP == (pc = "done" /\ NonEmpty) => Verdict(t) = "ok"
MLoImpliesP == (pc = "done" /\ t.op = "down") => Verdict([t EXCEPT !.o = t.olo]) = "ok"
EmitCases == (Emit /\ pc = "done" /\ NonEmpty) => PrintT(ToJson(t))
==============================================================================

SPECIFICATION Spec
CONSTANTS
  Which = "down"
  MaxN = 40
  StepVals = {0, 1, 3}
  HeadVals = {0, 30, 90, 180}
  IncVals = {1, 2, 5}
  Emit = TRUE
  Bug = "none"
INVARIANT MImpliesP
INVARIANT MLoImpliesP
INVARIANT EmitCases
CHECK_DEADLOCK FALSE

SPECIFICATION Spec
CONSTANTS
  Which = "crop"
  MaxN = 5
  StepVals = {0, 1, 3}
  HeadVals = {0, 30, 90, 180}
  IncVals = {1, 2, 5}
  Emit = FALSE
  Bug = "crop_open"
INVARIANT MImpliesP
INVARIANT EmitCases
CHECK_DEADLOCK FALSE

SPECIFICATION Spec
CONSTANTS
  Which = "down"
  MaxN = 12
  StepVals = {0, 1, 3}
  HeadVals = {0, 30, 90, 180}
  IncVals = {1, 2, 5}
  Emit = FALSE
  Bug = "down_noendpoint"
INVARIANT MImpliesP
INVARIANT EmitCases
CHECK_DEADLOCK FALSE

----------------------------- MODULE SelectProps -----------------------------
(* P for C11: which poses down-sampling, motion filtering, time cropping,     *)
(* splitting and merging must select.  A trajectory is given by               *)
(*   steps[k]   integer length of the step from pose k to k+1 (along x)      *)
(*   heads[k]   heading of pose k in degrees (rotation about z), 0..359      *)
(*   stamps[k]  integer time stamps (strictly increasing; <<>> for a path)   *)
(* and an outcome by ids (1-based indices of the input rows that the output  *)
(* rows are, identified through their time stamps / positions by alpha) plus *)
(* `intact`: every output row carries position, orientation and stamp of     *)
(* that one input row, bit for bit, in all three representations.            *)
EXTENDS Integers, Sequences, FiniteSets

Abs(x) == IF x < 0 THEN -x ELSE x
StrictlyInc(s) == \A k \in 1..(Len(s) - 1) : s[k] < s[k + 1]
Count(c) == Len(c.steps) + 1
Sum(f, a, b) == LET F[k \in (a - 1)..b] == IF k < a THEN 0 ELSE F[k - 1] + f[k] IN IF b < a THEN 0 ELSE F[b]
Path(c, i, j) == Sum(c.steps, i, j - 1)                    \* travelled path from pose i to pose j
RelAngle(c, i, j) == LET d == Abs(c.heads[i] - c.heads[j]) % 360 IN IF d > 180 THEN 360 - d ELSE d

\* ------------------------------------------------------------------ down-sampling to N poses
DownVerdict(c, N, o) ==
  LET n == Count(c) IN
  IF n <= N THEN (IF o.out = "ok" /\ o.ids = [k \in 1..n |-> k] THEN "ok" ELSE "ChangedThoughAlreadySmall")
  ELSE IF N < 1 THEN (IF o.out = "TrajectoryException" THEN "ok" ELSE "DownsampleBelowOneNotRefused")
  ELSE IF o.out # "ok" THEN "UnexpectedError"
  ELSE IF Len(o.ids) # N THEN "WrongCount"
  ELSE IF ~StrictlyInc(o.ids) THEN "OrderNotKept"
  ELSE IF o.ids[1] # 1 THEN "FirstPoseDropped"
  ELSE IF N >= 2 /\ o.ids[N] # n THEN "LastPoseDropped"
  ELSE IF N >= 2 /\ \E k \in 1..N : Abs((o.ids[k] - 1) * (N - 1) - (k - 1) * (n - 1)) > N - 1 THEN "NotEvenlySpaced"
  ELSE "ok"

\* ------------------------------------------------------------------ motion filter (d in lattice units, a in degrees)
\* envelope semantics for the angle (computed through so3_log): at an exact tie both answers are allowed.
\* kept(i) given the previously kept pose p:  path(p,i) >= d  or  angle(p,i) >= a
MotionOK(c, d, a, ids) ==
  /\ Len(ids) >= 1 /\ ids[1] = 1 /\ StrictlyInc(ids) /\ ids[Len(ids)] <= Count(c)
  /\ \A k \in 1..Len(ids) :
        LET p == ids[k]
            nxt == IF k < Len(ids) THEN ids[k + 1] ELSE Count(c) + 1
        IN /\ \A i \in (p + 1)..(nxt - 1) : Path(c, p, i) < d /\ RelAngle(c, p, i) <= a      \* dropped: below both
           /\ nxt <= Count(c) => (Path(c, p, nxt) >= d \/ RelAngle(c, p, nxt) >= a)          \* kept: reached one
MotionVerdict(c, d, a, o) ==
  IF Count(c) < 2 THEN (IF o.out \in {"ok", "FilterException"} THEN "ok" ELSE "UnexpectedError")   \* evo refuses single poses explicitly
  ELSE IF o.out # "ok" THEN "UnexpectedError"
  ELSE IF ~MotionOK(c, d, a, o.ids) THEN "WrongPosesKept"
  ELSE "ok"

\* ------------------------------------------------------------------ time crop [lo, hi]  (None = -1000 / 1000 here)
\* a bound that is not given (-1000 / 1000 here) defaults to the trajectory's own first / last stamp, as documented
CropVerdict(c, lo0, hi0, o) ==
  LET lo == IF lo0 = -1000 THEN c.stamps[1] ELSE lo0
      hi == IF hi0 = 1000 THEN c.stamps[Count(c)] ELSE hi0
      want == SelectSeq([k \in 1..Count(c) |-> k], LAMBDA k : c.stamps[k] >= lo /\ c.stamps[k] <= hi) IN
  IF lo > hi THEN (IF o.out = "TrajectoryException" THEN "ok" ELSE "EmptyIntervalNotRefused")
  ELSE IF o.out # "ok" THEN "UnexpectedError"
  ELSE IF o.ids # want THEN "WrongPosesKept"
  ELSE "ok"

\* ------------------------------------------------------------------ splitting: o.parts = sequence of id sequences
Concat(parts) == LET F[k \in 0..Len(parts)] == IF k = 0 THEN <<>> ELSE F[k - 1] \o parts[k] IN F[Len(parts)]
\* Exceeds(k): the step from pose k to k+1 exceeds the threshold
SplitVerdict(c, Exceeds(_), o) ==
  IF o.out # "ok" THEN "UnexpectedError"
  ELSE IF Concat(o.parts) # [k \in 1..Count(c) |-> k] THEN "PartsDoNotReproduceTrajectory"
  ELSE IF \E p \in DOMAIN o.parts : Len(o.parts[p]) = 0 THEN "EmptyPart"
  ELSE IF \E p \in 1..(Len(o.parts) - 1) : ~Exceeds(o.parts[p][Len(o.parts[p])]) THEN "CutAtSmallStep"
  ELSE IF \E p \in DOMAIN o.parts : \E k \in 1..(Len(o.parts[p]) - 1) : Exceeds(o.parts[p][k]) THEN "GapInsidePart"
  ELSE "ok"
\* speed |dp|/dt > v  <=>  |dp| > v dt  (v in units/tick as a rational vn/vd)
SplitKindVerdict(c, kind, th, o) ==
  CASE kind = "time" -> SplitVerdict(c, LAMBDA k : c.stamps[k + 1] - c.stamps[k] > th, o)
    [] kind = "distance" -> SplitVerdict(c, LAMBDA k : c.steps[k] > th, o)
    [] kind = "speed" -> SplitVerdict(c, LAMBDA k : c.steps[k] * 2 > th * (c.stamps[k + 1] - c.stamps[k]), o)   \* th in half units per tick

\* ------------------------------------------------------------------ merge: inputs = sequence of stamp sequences
\* o.rows = sequence of <<input index, row index>>
MergeVerdict(ins, o) ==
  LET all == {<<i, k>> : i \in DOMAIN ins, k \in 1..10} \cap {<<i, k>> \in (DOMAIN ins) \X (1..10) : k <= Len(ins[i])}
      st(r) == ins[r[1]][r[2]]
  IN IF o.out # "ok" THEN "UnexpectedError"
     ELSE IF {o.rows[k] : k \in DOMAIN o.rows} # all \/ Len(o.rows) # Cardinality(all) THEN "NotTheUnion"
     ELSE IF \E k \in 1..(Len(o.rows) - 1) : st(o.rows[k]) > st(o.rows[k + 1]) THEN "NotTimeSorted"
     ELSE "ok"

Verdict(t) ==
  IF ~t.o.intact THEN "RowTornApart"
  ELSE CASE t.op = "down" -> DownVerdict(t.c, t.N, t.o)
         [] t.op = "motion" -> MotionVerdict(t.c, t.d, t.a, t.o)
         [] t.op = "crop" -> CropVerdict(t.c, t.lo, t.hi, t.o)
         [] t.op = "split" -> SplitKindVerdict(t.c, t.kind, t.th, t.o)
         [] t.op = "merge" -> MergeVerdict(t.ins, t.o)
==============================================================================

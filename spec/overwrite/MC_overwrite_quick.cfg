SPECIFICATION Spec
CONSTANTS
  Sites <- AllSites
  Answers <- AnswersAll
  MultiAnswers <- AnswersMulti
  Emit = TRUE
  Legacy = FALSE
INVARIANT MImpliesP
INVARIANT EmitCases
CHECK_DEADLOCK FALSE

SPECIFICATION Spec
CONSTANTS
  Sites <- QuickSites
  Answers <- AnswersAll
  MultiAnswers <- AnswersMulti
  Emit = TRUE
  Legacy = FALSE
INVARIANT MImpliesP
INVARIANT EmitCases
CHECK_DEADLOCK FALSE

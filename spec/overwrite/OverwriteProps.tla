--------------------------- MODULE OverwriteProps ---------------------------
(* P for C17, on observations of one call of a writer / one CLI run.          *)
(*   ex[i]      target i existed before the call (junk bytes written by the   *)
(*              harness)                                                      *)
(*   confirm    confirmation requested (confirm_overwrite / no --no_warnings) *)
(*   after[i]   "old" (byte-identical), "new" (different bytes or created),   *)
(*              "absent"                                                      *)
(*   prompts    sequence of [t, a, done]: prompt for target t (0 = could not  *)
(*              be attributed), answer a, set of targets already changed when *)
(*              the prompt appeared                                           *)
(*   valid[i]   the new file is readable by the matching reader               *)
(*   stray      number of files created next to the targets that are not      *)
(*              targets                                                       *)
EXTENDS Naturals, Sequences, FiniteSets

Declined(prompts) == \E k \in DOMAIN prompts : prompts[k].a # "y"
YesFor(prompts, i) == \E k \in DOMAIN prompts : prompts[k].t = i /\ prompts[k].a = "y" /\ i \notin prompts[k].done
AskedFor(prompts, i) == \E k \in DOMAIN prompts : prompts[k].t = i

Verdict(ex, confirm, o) ==
  LET N == Len(ex) IN
  IF \E i \in 1..N : ex[i] /\ confirm /\ o.after[i] # "old" /\ ~YesFor(o.prompts, i)
     THEN "OverwrittenWithoutYes"
  ELSE IF \E k \in DOMAIN o.prompts : o.prompts[k].a # "y" /\ o.prompts[k].t > 0 /\ o.after[o.prompts[k].t] # "old"
     THEN "DeclinedButChanged"
  ELSE IF Declined(o.prompts) /\ o.stray > 0 THEN "WroteSomethingElseAfterDecline"
  ELSE IF o.exc # "none" THEN "ok"                      \* a crash is not this property's business
  ELSE IF ~Declined(o.prompts) /\ \E i \in 1..N : ex[i] /\ confirm /\ ~AskedFor(o.prompts, i)
     THEN "NotAsked"
  ELSE IF ~confirm /\ Len(o.prompts) > 0 THEN "AskedAlthoughWarningsDisabled"
  ELSE IF ~Declined(o.prompts) /\ \E i \in 1..N : o.after[i] # "new" THEN "NotReplacedAfterYes"
  ELSE IF ~Declined(o.prompts) /\ \E i \in 1..N : ~o.valid[i] THEN "NewFileNotTheOutput"
  ELSE "ok"
==============================================================================

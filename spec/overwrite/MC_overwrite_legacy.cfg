SPECIFICATION Spec
CONSTANTS
  Sites <- QuickSites
  Answers <- AnswersAll
  MultiAnswers <- AnswersMulti
  Emit = FALSE
  Legacy = TRUE
INVARIANT MImpliesP
INVARIANT EmitCases
CHECK_DEADLOCK FALSE

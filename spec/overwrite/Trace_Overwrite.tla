--------------------------- MODULE Trace_Overwrite ---------------------------
(* code -> spec: each recorded writer call / CLI run (files hashed before and *)
(* after, prompts recorded with the set of targets already changed) is judged *)
(* by P = OverwriteProps!Verdict.                                             *)
EXTENDS OverwriteProps, TLC, Json, IOUtils
Traces == JsonDeserialize(IOEnv.TRACE_FILE)
VARIABLES tid, verdict
SetOf(s) == {s[k] : k \in DOMAIN s}
Norm(o) == [after |-> o.after, valid |-> o.valid, stray |-> o.stray, exc |-> o.exc,
            prompts |-> [k \in DOMAIN o.prompts |-> [t |-> o.prompts[k].t, a |-> o.prompts[k].a, done |-> SetOf(o.prompts[k].done)]]]
Init == tid \in 1..Len(Traces) /\ verdict = "pending"
Next == /\ verdict = "pending"
        /\ LET t == Traces[tid]
               v == Verdict(t.ex, t.confirm, Norm(t.o))
           IN /\ verdict' = v
              /\ (v # "ok" => PrintT(<<"REJECT", t.id, v>>))
        /\ UNCHANGED tid
Spec == Init /\ [][Next]_<<tid, verdict>>
==============================================================================

------------------------------ MODULE Overwrite ------------------------------
(* M for C17: every output site of evo as the code does it: for each target   *)
(* in order, `if confirm and exists: prompt; answer # "y" -> return (or, for  *)
(* CLI loops that call the writer once per file, go on with the next file)`,  *)
(* then write.  TLC enumerates site x path kind x confirm x which targets     *)
(* exist x answers, checks M => P (OverwriteProps) and prints each case with  *)
(* the outcome M predicts.                                                    *)
EXTENDS OverwriteProps, TLC, Json
CONSTANTS Sites,       \* records [name, nt, stop, kinds]
          Answers, MultiAnswers, Emit, Legacy

VARIABLES site, kind, confirm, ex, ans,      \* the case
          i, np, after, prompts, pc          \* the run
vars == <<site, kind, confirm, ex, ans, i, np, after, prompts, pc>>

BoolSeqs(n) == [1..n -> BOOLEAN]
ExPatterns(n) == IF n <= 2 THEN BoolSeqs(n)
                 ELSE {e \in BoolSeqs(n) : Cardinality({k \in 1..n : e[k]}) \in {0, 1, n}}
AnsPatterns(n) == IF n = 1 THEN [1..1 -> Answers]
                  ELSE {a \in [1..n -> MultiAnswers] : Cardinality({k \in 1..n : a[k] # "y"}) <= 1}

Init == /\ site \in Sites
        /\ kind \in site.kinds
        /\ confirm \in BOOLEAN
        /\ ex \in ExPatterns(site.nt)
        /\ ans \in AnsPatterns(site.nt)
        /\ i = 1 /\ np = 0 /\ prompts = <<>> /\ pc = "run"
        /\ after = [k \in 1..site.nt |-> IF ex[k] THEN "old" ELSE "absent"]

Changed == {k \in 1..site.nt : after[k] = "new"}

\* one target: check_and_confirm_overwrite, then write
Target == /\ pc = "run" /\ i <= site.nt
          /\ IF confirm /\ ex[i] /\ ~Legacy
             THEN LET a == ans[np + 1] IN
                  /\ prompts' = Append(prompts, [t |-> i, a |-> a, done |-> Changed])
                  /\ np' = np + 1
                  /\ IF a = "y" THEN after' = [after EXCEPT ![i] = "new"] /\ i' = i + 1 /\ pc' = pc
                     ELSE /\ UNCHANGED after
                          /\ IF site.stop THEN pc' = "done" /\ i' = i ELSE pc' = pc /\ i' = i + 1
             ELSE /\ after' = [after EXCEPT ![i] = "new"] /\ i' = i + 1
                  /\ UNCHANGED <<np, prompts, pc>>
          /\ UNCHANGED <<site, kind, confirm, ex, ans>>
Finish == /\ pc = "run" /\ i > site.nt /\ pc' = "done"
          /\ UNCHANGED <<site, kind, confirm, ex, ans, i, np, after, prompts>>
Next == Target \/ Finish
Spec == Init /\ [][Next]_vars

MOut == [after |-> after, prompts |-> prompts, valid |-> [k \in 1..site.nt |-> TRUE], stray |-> 0, exc |-> "none"]
MImpliesP == pc = "done" => Verdict(ex, confirm, MOut) = "ok"
EmitCases == (Emit /\ pc = "done") =>
   PrintT(ToJson([site |-> site.name, nt |-> site.nt, kind |-> kind, confirm |-> confirm, ex |-> ex,
                  ans |-> ans, m |-> [after |-> after, prompts |-> prompts]]))

S(name, nt, stop, kinds) == [name |-> name, nt |-> nt, stop |-> stop, kinds |-> kinds]
Both == {"str", "Path"}
LibSites == { S("lib_write_tum", 1, TRUE, Both), S("lib_write_kitti", 1, TRUE, Both), S("lib_save_res", 1, TRUE, Both),
              S("lib_save_table", 1, TRUE, Both), S("lib_export_pdf", 1, TRUE, {"str"}),
              S("lib_export_png", 2, TRUE, {"str"}), S("lib_serialize", 1, TRUE, {"str"}),
              S("lib_export_noext", 2, TRUE, {"str"}) }      \* a plot name without extension: the targets are the files matplotlib writes (<name>_<fig>.png)
CliSitesQuick == { S("ape_save_results", 1, TRUE, {"str"}), S("rpe_save_plot_png", 2, TRUE, {"str"}),
                   S("traj_save_as_tum", 2, FALSE, {"str"}), S("res_save_table", 1, TRUE, {"str"}),
                   S("config_generate_out", 1, TRUE, {"str"}), S("traj_serialize_plot", 1, TRUE, {"str"}) }
CliSitesAll == CliSitesQuick \cup
                 { S("ape_save_plot_pdf", 1, TRUE, {"str"}), S("ape_save_plot_png", 2, TRUE, {"str"}),
                   S("ape_serialize_plot", 1, TRUE, {"str"}), S("rpe_save_results", 1, TRUE, {"str"}),
                   S("rpe_save_plot_pdf", 1, TRUE, {"str"}), S("rpe_serialize_plot", 1, TRUE, {"str"}),
                   S("traj_save_as_kitti", 2, FALSE, {"str"}), S("traj_save_plot_png", 4, TRUE, {"str"}),
                   S("traj_save_plot_pdf", 1, TRUE, {"str"}), S("traj_save_table", 1, TRUE, {"str"}),
                   S("res_save_plot_pdf", 1, TRUE, {"str"}), S("res_save_plot_png", 5, TRUE, {"str"}),
                   S("res_serialize_plot", 1, TRUE, {"str"}), S("ape_save_plot_noext", 2, TRUE, {"str"}) }
QuickSites == LibSites \cup CliSitesQuick
AllSites == LibSites \cup CliSitesAll
AnswersAll == {"y", "n", "", "Y", "yes", " y", "EOF"}      \* "EOF": standard input is at end-of-file (input() raises EOFError) - not a 'y'
AnswersMulti == {"y", "n", ""}
==============================================================================

SPECIFICATION Spec
CONSTANTS
  Rots <- O24
  Emit = TRUE
  SkipReflectionFix = FALSE
INVARIANT MImpliesP
INVARIANT EmitCases
CHECK_DEADLOCK FALSE

-------------------------------- MODULE Umeyama --------------------------------
(* M for C03: the decision structure of geometry.umeyama_alignment over exact  *)
(* integers: shape test -> means -> covariance rank test (refuse rank < 2) ->  *)
(* sign test det(U) det(V) (here: sign of the determinant of the generating    *)
(* map, which equals it for full-rank covariances) -> compose r, c, t.          *)
(* TLC enumerates the noise-free family (base sets x all 24 rotations x        *)
(* translations x scales), the mirrored family (cross x rotations h x all 24   *)
(* improper m), shape mismatches and exactly degenerate sets, checks M => P    *)
(* and prints the cases.                                                        *)
EXTENDS UmeyamaProps, TLC, Json
CONSTANTS Rots, Emit, SkipReflectionFix
VARIABLES c, o, pc
vars == <<c, o, pc>>

Tetra == <<<<0, 0, 0>>, <<1, 0, 0>>, <<1, 2, 0>>, <<1, 2, 3>>>>
Planar == <<<<0, 0, 0>>, <<2, 0, 0>>, <<2, 1, 0>>, <<-1, 3, 0>>>>
Tri == <<<<1, 1, 1>>, <<3, 1, 1>>, <<1, 2, 4>>>>
Bases == {Tetra, Planar, Tri}
Cross == <<<<3, 0, 0>>, <<-3, 0, 0>>, <<0, 2, 0>>, <<0, -2, 0>>, <<0, 0, 1>>, <<0, 0, -1>>>>
Degenerate == { <<<<2, 2, 2>>, <<2, 2, 2>>, <<2, 2, 2>>>>, <<<<0, 0, 1>>, <<0, 0, 5>>, <<0, 0, -2>>>>,
                <<<<3, 0, 0>>, <<-1, 0, 0>>>>, <<<<0, 4, 0>>>> }
Scales == {<<1, 1>>, <<2, 1>>, <<1, 2>>}
Trans == {<<0, 0, 0>>, <<4, -8, 12>>}
\* s g x + t (only generated when integral)
Img(x, g, s, t) == [k \in DOMAIN x |-> VAdd(<<(s[1] * Act(g, x[k])[1]) \div s[2], (s[1] * Act(g, x[k])[2]) \div s[2], (s[1] * Act(g, x[k])[3]) \div s[2]>>, t)]
Integral(x, s) == \A k \in DOMAIN x : \A i \in 1..3 : (s[1] * x[k][i]) % s[2] = 0

Init == /\ pc = "call" /\ o = [out |-> "none"]
        /\ \/ \E x \in Bases, g \in Rots, s \in Scales, t \in Trans, sc \in BOOLEAN :
                 /\ Integral(x, s)
                 /\ c = [kind |-> "noisefree", x |-> x, y |-> Img(x, g, s, t), g |-> g, s |-> s, t |-> t, scale |-> sc]
           \/ \E h \in Rots, m \in 25..48, s \in {<<1, 1>>, <<2, 1>>}, t \in Trans, sc \in BOOLEAN :
                 c = [kind |-> "mirrored", x |-> Img(Cross, h, <<1, 1>>, <<0, 0, 0>>), y |-> Img(Img(Cross, h, <<1, 1>>, <<0, 0, 0>>), m, s, t),
                      h |-> h, m |-> m, s |-> s, t |-> t, scale |-> sc]
           \/ \E x \in Degenerate, sc \in BOOLEAN : c = [kind |-> "degenerate", x |-> x, y |-> Img(x, 7, <<1, 1>>, <<1, 1, 1>>), scale |-> sc]
           \/ \E sc \in BOOLEAN : c = [kind |-> "shape", x |-> Tetra, y |-> Tri, scale |-> sc]

Call == /\ pc = "call" /\ pc' = "done" /\ UNCHANGED c
        /\ o' = CASE c.kind = "shape" -> [out |-> "GeometryException"]
                  [] c.kind = "degenerate" -> [out |-> "GeometryException"]     \* covariance rank < 2
                  [] c.kind = "noisefree" ->
                       [out |-> "ok", proper |-> TRUE, r |-> c.g, c |-> IF c.scale THEN c.s ELSE <<1, 1>>,
                        t |-> IF c.scale THEN RatVec(c.t) ELSE RatVec(<<0, 0, 0>>)]
                  [] c.kind = "mirrored" ->
                       IF SkipReflectionFix
                       THEN [out |-> "ok", proper |-> FALSE, r |-> c.m, c |-> IF c.scale THEN c.s ELSE <<1, 1>>, t |-> RatVec(c.t)]
                       ELSE [out |-> "ok", proper |-> TRUE, r |-> MULT[c.m][Refl(Abs(PERM[c.h][3]))],
                             c |-> IF c.scale THEN <<6 * c.s[1], 7 * c.s[2]>> ELSE <<1, 1>>, t |-> RatVec(c.t)]
Spec == Init /\ [][Call]_vars
\* without scale estimation the model does not compute the optimal translation of a scaled set: P does not constrain it either
MImpliesP == pc = "done" => Verdict(c, o) = "ok"
EmitCases == (Emit /\ pc = "done") => PrintT(ToJson(c))
QuickRots == {1, 2, 7, 12, 18, 23}
==============================================================================

SPECIFICATION Spec
CONSTANTS
  Rots <- QuickRots
  Emit = FALSE
  SkipReflectionFix = TRUE
INVARIANT MImpliesP
INVARIANT EmitCases
CHECK_DEADLOCK FALSE

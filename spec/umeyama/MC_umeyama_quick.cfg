SPECIFICATION Spec
CONSTANTS
  Rots <- QuickRots
  Emit = TRUE
  SkipReflectionFix = FALSE
INVARIANT MImpliesP
INVARIANT EmitCases
CHECK_DEADLOCK FALSE

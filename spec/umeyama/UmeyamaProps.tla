----------------------------- MODULE UmeyamaProps -----------------------------
(* P for C03 on integer point sets.  Results are alpha-mapped:                 *)
(*   o.r  ExactGeom rotation index (1..24 proper, 25..48 improper, -1 none),   *)
(*   o.t  translation as three rationals <<num, den>>,  o.c  scale <<num, den>>*)
(*   o.proper  orthonormal with det +1 and c > 0 (float test in alpha).        *)
EXTENDS LeastSquares

RatVec(t) == <<<<t[1], 1>>, <<t[2], 1>>, <<t[3], 1>>>>
RatVecEq(a, b) == \A i \in 1..3 : RatEq(a[i], b[i])

\* exactly degenerate: all points coincident, or all on one coordinate axis
Coincident(x) == \A k \in DOMAIN x : x[k] = x[1]
OnOneAxis(x) == \E a \in 1..3 : \A k \in DOMAIN x : \A i \in (1..3) \ {a} : x[k][i] = 0
\* reflection along coordinate axis a as an (improper) element of O48
Refl(a) == CHOOSE f \in 25..48 : PERM[f] = [i \in 1..3 |-> IF i = a THEN -i ELSE i]

Verdict(c, o) ==
  CASE c.kind = "shape" -> IF o.out = "GeometryException" THEN "ok" ELSE "UnequalSizesNotRefused"
    [] c.kind = "degenerate" -> IF o.out = "GeometryException" THEN "ok" ELSE "DegenerateNotRefused"
    [] c.kind = "noisefree" ->
         \* y = s g x + t with x of rank >= 2: the generating transformation is reproduced
         IF o.out # "ok" THEN "RefusedThoughRotationDetermined"
         ELSE IF ~o.proper THEN "ImproperRotation"
         ELSE IF o.r # c.g THEN "WrongRotation"
         ELSE IF c.scale /\ ~RatEq(o.c, c.s) THEN "WrongScale"
         ELSE IF ~c.scale /\ ~RatEq(o.c, <<1, 1>>) THEN "ScaleNotOneWhenOff"
         ELSE IF c.scale /\ ~RatVecEq(o.t, RatVec(c.t)) THEN "WrongTranslation"
         ELSE "ok"
    [] c.kind = "mirrored" ->
         \* y = s m h X + t, X the centred cross (+-3 e1, +-2 e2, +-e3), m improper: optimum = m F, F = reflection along h e3,
         \* scale s (18 + 8 - 2) / 28, translation t
         IF o.out # "ok" THEN "RefusedThoughRotationDetermined"
         ELSE IF ~o.proper THEN "ImproperRotation"
         ELSE IF o.r # MULT[c.m][Refl(Abs(PERM[c.h][3]))] THEN "NotTheOptimalProperRotation"
         ELSE IF c.scale /\ ~RatEq(o.c, <<6 * c.s[1], 7 * c.s[2]>>) THEN "WrongScale"
         ELSE IF ~c.scale /\ ~RatEq(o.c, <<1, 1>>) THEN "ScaleNotOneWhenOff"
         ELSE IF ~RatVecEq(o.t, RatVec(c.t)) THEN "WrongTranslation"
         ELSE "ok"
    [] c.kind = "opt" -> OptVerdict(c, o)
==============================================================================

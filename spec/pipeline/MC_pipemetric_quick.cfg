SPECIFICATION Spec
CONSTANTS
  SampleK = 23
  Emit = TRUE
INVARIANT EmitCases
CHECK_DEADLOCK FALSE

SPECIFICATION Spec
CONSTANTS
  SampleK = 1
  Emit = TRUE
INVARIANT EmitCases
CHECK_DEADLOCK FALSE

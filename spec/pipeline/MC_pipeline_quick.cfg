SPECIFICATION Spec
CONSTANTS
  SampleK = 97
  Emit = TRUE
INVARIANT EmitCases
CHECK_DEADLOCK FALSE

SPECIFICATION Spec
CONSTANTS
  SampleK = 37
  Emit = TRUE
INVARIANT EmitCases
CHECK_DEADLOCK FALSE

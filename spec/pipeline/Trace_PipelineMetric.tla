-------------------------- MODULE Trace_PipelineMetric --------------------------
EXTENDS PipelineProps, TLC, Json, IOUtils
Traces == JsonDeserialize(IOEnv.TRACE_FILE)
VARIABLES tid, verdict
Init == tid \in 1..Len(Traces) /\ verdict = "pending"
Next == /\ verdict = "pending"
        /\ LET t == Traces[tid]  v == MetricVerdict(t.c, t.o) IN
             /\ verdict' = v /\ (v # "ok" => PrintT(<<"REJECT", t.id, v>>))
        /\ UNCHANGED tid
Spec == Init /\ [][Next]_<<tid, verdict>>
==============================================================================

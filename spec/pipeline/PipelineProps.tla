----------------------------- MODULE PipelineProps -----------------------------
(* P for C15 (and the file pipelines of evo_ape / evo_rpe, C01/C02): the          *)
(* documented processing order of the command line tools, composed from the       *)
(* property operators of the trajectory module (TrajectoryProps / TrajData).      *)
(*                                                                                *)
(* evo_traj:  load -> downsample -> motion filter -> merge -> time offset (not    *)
(*   the reference) -> [associate with the reference -> Umeyama (rigid / scale /  *)
(*   similarity) and/or origin alignment] -> transformation from file (left |     *)
(*   right [, propagated] [, inverted]) -> plane projection -> export.            *)
(*   The reference is only down-sampled, filtered and projected.                  *)
(*                                                                                *)
(* Inputs are lattice trajectories [poses, stamps, proj]; options `q`:            *)
(*   down (0 = off), mf (0 = off | dh half-units), merge, toff (ticks), mode      *)
(*   ("none" | "sync" | "rigid" | "sim" | "scale" | "origin" | "scaleorigin"),    *)
(*   md (max diff, ticks), tf ("none" | "left" | "right"), g, s (scale of the     *)
(*   file's matrix), inv, prop, plane ("none" | "xy" | "yz").                     *)
EXTENDS TrajData, PairsProps

Down(T, n) == IF n = 0 \/ N(T) <= n THEN T ELSE DocReduce(T, IF n = 1 THEN <<1>> ELSE <<1, N(T)>>)        \* n in {1, 2}: no freedom
\* dh = 2001 stands for "distance threshold never reached, angle threshold 100 degrees" (only rotations keep a pose)
\* dh >= 10000 stands for "distance threshold dh - 10000 half-units AND angle threshold 100 degrees" (both criteria active)
MFDist(dh) == IF dh >= 10000 THEN dh - 10000 ELSE dh
MFAng(dh) == IF dh = 2001 \/ dh >= 10000 THEN 100 ELSE 1000
MFilt(T, dh) == IF dh = 0 \/ N(T) < 2 THEN T
                ELSE DocReduce(T, IdsWhere(N(T), LAMBDA k : k \in MotionKeep(T, MFDist(dh), MFAng(dh))))
\* a path on which both criteria of the motion filter fire in turn (thresholds 2.5 units / 100 degrees): pose 2 is kept for its distance
\* (turned by 90), pose 3 is 180 from pose 1 but only 90 from pose 2 (dropped), pose 4 is kept for its angle to pose 2, pose 5 is 4 units
\* from pose 2 but only 2 from pose 4 (dropped), pose 6 completes 3 units since pose 4 (kept), pose 7 is dropped:  kept = 1, 2, 4, 6
Walk == [poses |-> <<Pose(1, <<0, 0, 0>>), Pose(10, <<3, 0, 0>>), Pose(4, <<4, 0, 0>>), Pose(11, <<4, 1, 0>>), Pose(11, <<4, 1, 2>>),
                     Pose(11, <<4, 2, 2>>), Pose(1, <<4, 2, 3>>)>>, stamps |-> <<0, 1, 2, 3, 4, 5, 6>>, proj |-> FALSE]
\* time-sorted union of two trajectories with disjoint stamps
MergeT(A, B) ==
  LET all == [k \in 1..(N(A) + N(B)) |-> IF k <= N(A) THEN <<A.stamps[k], A.poses[k]>> ELSE <<B.stamps[k - N(A)], B.poses[k - N(A)]>>]
      Rank(k) == Cardinality({j \in DOMAIN all : all[j][1] < all[k][1]}) + 1
      sorted == [r \in DOMAIN all |-> all[CHOOSE k \in DOMAIN all : Rank(k) = r]]
  IN [poses |-> [k \in DOMAIN sorted |-> sorted[k][2]], stamps |-> [k \in DOMAIN sorted |-> sorted[k][1]], proj |-> FALSE]
\* the same for any number of trajectories (flattened first: nested MergeT calls are re-evaluated by TLC at every reference)
MergeSeq(Ts) ==
  LET Flat[i \in 0..Len(Ts)] == IF i = 0 THEN <<>> ELSE Flat[i - 1] \o [k \in 1..N(Ts[i]) |-> <<Ts[i].stamps[k], Ts[i].poses[k]>>]
      all == Flat[Len(Ts)]
      rank == [k \in DOMAIN all |-> Cardinality({j \in DOMAIN all : all[j][1] < all[k][1]}) + 1]
      sorted == [r \in DOMAIN all |-> all[CHOOSE k \in DOMAIN all : rank[k] = r]]
  IN [poses |-> [k \in DOMAIN sorted |-> sorted[k][2]], stamps |-> [k \in DOMAIN sorted |-> sorted[k][1]], proj |-> FALSE]
Shift(T, d) == [T EXCEPT !.stamps = [k \in DOMAIN T.stamps |-> T.stamps[k] + d]]
\* association of an estimate with the reference: pairs of equal-or-near stamps (the generated constellations have no ties)
Near(ref, T, md) == {<<i, j>> \in (1..N(ref)) \X (1..N(T)) :
                       /\ Abs(ref.stamps[i] - T.stamps[j]) <= md
                       /\ \A j2 \in 1..N(T) : Abs(ref.stamps[i] - T.stamps[j]) <= Abs(ref.stamps[i] - T.stamps[j2])
                       /\ \A i2 \in 1..N(ref) : Abs(ref.stamps[i] - T.stamps[j]) <= Abs(ref.stamps[i2] - T.stamps[j])}
AssocRef(ref, T, md) == DocReduce(ref, IdsWhere(N(ref), LAMBDA i : \E pr \in Near(ref, T, md) : pr[1] = i))
AssocEst(ref, T, md) == DocReduce(T, IdsWhere(N(T), LAMBDA j : \E pr \in Near(ref, T, md) : pr[2] = j))

\* the inverse of the similarity p -> s g p + t is p -> (1/s) g^-1 (p - t): applied to a pose P
InvSimPose(g, s, P) == Pose(RM(RInv(g.r), P.r), LET d == Act(RInv(g.r), VSub(P.p, g.p)) IN <<d[1] \div s, d[2] \div s, d[3] \div s>>)
InvDivides(T, g, s) == \A k \in 1..N(T) : LET d == Act(RInv(g.r), VSub(T.poses[k].p, g.p)) IN \A i \in 1..3 : d[i] % s = 0

AlignStage(T, ref, mode) ==
  CASE mode \in {"none", "sync"} -> T
    [] mode \in {"rigid", "sim", "scale"} -> DocAlign(T, ref, mode)
    [] mode = "origin" -> DocAlign(T, ref, "origin")
    [] mode = "scaleorigin" -> DocAlign(DocAlign(T, ref, "scale"), ref, "origin")
TransformStage(T, q) ==
  IF q.tf = "none" THEN T
  ELSE IF q.tf = "left" THEN (IF q.inv THEN MapPoses(T, LAMBDA P : InvSimPose(q.g, q.s, P)) ELSE DocTransformL(T, q.g, q.s))
  ELSE LET g == IF q.inv THEN PInv(q.g) ELSE q.g IN IF q.prop THEN DocTransformProp(T, g) ELSE DocTransformR(T, g)
ProjStage(T, pl) == IF pl = "none" THEN T ELSE DocProject(T, pl)

\* the exported trajectories: <<list of estimate outputs, reference output (or <<>>)>>
RefOut(c) == IF ~c.useref THEN <<>> ELSE <<ProjStage(MFilt(Down(c.ref, c.q.down), c.q.mf), c.q.plane)>>
PreEst(c) == LET pre == [k \in DOMAIN c.trajs |-> MFilt(Down(c.trajs[k], c.q.down), c.q.mf)]
                 merged == IF ~c.q.merge THEN pre ELSE <<MergeSeq(pre)>>
             IN [k \in DOMAIN merged |-> Shift(merged[k], c.q.toff)]
EstOut(c) ==
  LET ref1 == MFilt(Down(c.ref, c.q.down), c.q.mf) IN
  [k \in DOMAIN PreEst(c) |->
     LET T == PreEst(c)[k]
         synced == c.useref /\ c.q.mode # "none"
         Ta == IF synced THEN AssocEst(ref1, T, c.q.md) ELSE T
         Ra == IF synced THEN AssocRef(ref1, T, c.q.md) ELSE ref1
     IN ProjStage(TransformStage(AlignStage(Ta, Ra, IF synced THEN c.q.mode ELSE "none"), c.q), c.q.plane)]

\* observed exported file = [poses : Seq([r, p]), stamps : Seq(Int), planar : BOOLEAN]; orientation FREE is not compared
SameTraj(T, f, withStamps) ==
  /\ Len(f.poses) = N(T) /\ (withStamps => f.stamps = T.stamps)
  /\ \A k \in 1..N(T) : f.poses[k].p = T.poses[k].p /\ (T.poses[k].r = FREE \/ f.poses[k].r = T.poses[k].r)
  /\ (T.proj => f.planar)
TrajVerdict(c, o) ==
  IF o.out # "ok" THEN "ToolFailed"
  ELSE IF Len(o.est) # Len(EstOut(c)) THEN "WrongNumberOfExports"
  ELSE IF \E k \in DOMAIN o.est : ~SameTraj(EstOut(c)[k], o.est[k], c.export = "tum") THEN "ExportedTrajectoryNotAsDocumented"
  ELSE IF c.useref /\ (Len(o.ref) # 1 \/ ~SameTraj(RefOut(c)[1], o.ref[1], c.export = "tum")) THEN "ReferenceNotOnlyFilteredAndProjected"
  ELSE "ok"

\* ------------------------------------------------------------------------------------------------------------------
\* evo_ape / evo_rpe on files (C01 / C02, last sentences):  load -> downsample and motion filter (both) -> crop the
\* reference to [t_start, t_end] -> associate (max diff, offset added to the estimate's stamps) -> align -> project ->
\* metric -> (unit) -> stored error_array / timestamps
DownN(T, n) ==       \* even spacing; only used where the spacing is exact
  IF n = 0 \/ N(T) <= n THEN T
  ELSE IF n = 1 THEN DocReduce(T, <<1>>)
  ELSE DocReduce(T, [k \in 1..n |-> 1 + ((k - 1) * (N(T) - 1)) \div (n - 1)])
DownExact(T, n) == n = 0 \/ N(T) <= n \/ n = 1 \/ \A k \in 1..n : ((k - 1) * (N(T) - 1)) % (n - 1) = 0
CropT(T, lo, hi) == DocReduce(T, IdsWhere(N(T), LAMBDA k : T.stamps[k] >= lo /\ T.stamps[k] <= hi))
NearOff(ref, T, md, off) == Near(ref, Shift(T, off), md)
\* q: down, mf, lo, hi (crop of the reference; -1000 / 1000 = not given), md, off, mode, nalign (0 = all), plane, rel, delta, allpairs
ProcRef(c) == LET r1 == MFilt(DownN(c.ref, c.q.down), c.q.mf) IN
              IF c.q.lo = -1000 /\ c.q.hi = 1000 THEN r1
              ELSE CropT(r1, IF c.q.lo = -1000 THEN r1.stamps[1] ELSE c.q.lo, IF c.q.hi = 1000 THEN r1.stamps[N(r1)] ELSE c.q.hi)
ProcEst(c) == MFilt(DownN(c.est, c.q.down), c.q.mf)
PairsRE(c) == NearOff(ProcRef(c), ProcEst(c), c.q.md, c.q.off)
SyncedRef(c) == DocReduce(ProcRef(c), IdsWhere(N(ProcRef(c)), LAMBDA i : \E pr \in PairsRE(c) : pr[1] = i))
SyncedEst(c) == DocReduce(ProcEst(c), IdsWhere(N(ProcEst(c)), LAMBDA j : \E pr \in PairsRE(c) : pr[2] = j))
\* alignment determined from the first n pose pairs only (n = 0: all): the similarity (g, s, t) with est_k = s g ref_k + t for k <= n
FitsN(T, ref, n) == {gst \in O24 \X (1..4) \X {VSub(T.poses[1].p, VScale(x[2], Act(x[1], ref.poses[1].p))) : x \in O24 \X (1..4)} :
                       \A k \in 1..n : T.poses[k].p = VAdd(VScale(gst[2], Act(gst[1], ref.poses[k].p)), gst[3])}
AlignN(T, ref, mode, n) ==
  LET f == CHOOSE x \in FitsN(T, ref, n) : TRUE
      g == f[1]  s == f[2]  t == f[3] IN
  IF mode = "scale" THEN MapPoses(T, LAMBDA P : Pose(P.r, <<P.p[1] \div s, P.p[2] \div s, P.p[3] \div s>>))
  ELSE MapPoses(T, LAMBDA P : InvSimPose(Pose(g, t), s, P))
AlignNDefined(T, ref, mode, n) ==
  /\ n <= N(T) /\ N(T) = N(ref) /\ FitsN(T, ref, n) # {}
  /\ \A x, y \in FitsN(T, ref, n) : x[1] = y[1]          \* the first n points determine the rotation (collinear points are refused by evo: C03)
  /\ LET f == CHOOSE x \in FitsN(T, ref, n) : TRUE IN
       IF mode = "scale" THEN DivisibleBy(T, f[2]) ELSE InvDivides(T, Pose(f[1], f[3]), f[2])
AlignedEst(c) == IF c.q.nalign = 0 THEN AlignStage(SyncedEst(c), SyncedRef(c), c.q.mode)
                 ELSE AlignN(SyncedEst(c), SyncedRef(c), c.q.mode, c.q.nalign)
FinalEst(c) == ProjStage(AlignedEst(c), c.q.plane)
FinalRef(c) == ProjStage(SyncedRef(c), c.q.plane)
PoseErr(rel, R, E) ==      \* definition of C01 on one reference / estimate pose (squares for lengths / norms, degrees for angles)
  LET D == PRel(E, R) IN
  CASE rel = "trans" -> Dist2(R.p, E.p) [] rel = "deg" -> AngDeg(D.r) [] rel = "rotpart" -> FrobI2(D.r) [] rel = "full" -> FrobI2(D.r) + Dist2(R.p, E.p)
ApeExpected(c) == [k \in 1..N(FinalEst(c)) |-> PoseErr(c.q.rel, FinalRef(c).poses[k], FinalEst(c).poses[k])]
\* delta in metres, consecutive pairs, chosen on the estimate or - pairs_from_reference - on the reference (both PROCESSED):
\* the chain from start pose i (0-based): j = first pose whose path since i reaches d.  d is given in HALF lattice units and is
\* odd, so no accumulated path can hit it exactly (positions after a float alignment are 1e-16 off the lattice)
DrvOf(T) == [steps |-> [k \in 1..(N(T) - 1) |-> StepLen(T, k)], heads |-> [k \in 1..N(T) |-> 0]]
ChainFrom(drv, d, i0) ==
  LET n == NP(drv)
      NextJ(i) == IF \E j \in (i + 1)..(n - 1) : 2 * Path(drv, i, j) >= d
                  THEN CHOOSE j \in (i + 1)..(n - 1) : 2 * Path(drv, i, j) >= d /\ \A m \in (i + 1)..(j - 1) : 2 * Path(drv, i, m) < d
                  ELSE -1
      F[k \in 0..n] == IF k = 0 THEN <<<<>>, i0>>          \* <<pairs so far, current start (-1 = finished)>>
                       ELSE LET prev == F[k - 1] IN
                            IF prev[2] = -1 \/ NextJ(prev[2]) = -1 THEN <<prev[1], -1>>
                            ELSE <<Append(prev[1], <<prev[2], NextJ(prev[2])>>), NextJ(prev[2])>>
  IN F[n][1]
PairErr(c, pr) == LET i == pr[1] + 1  j == pr[2] + 1
                      Q == PRel(FinalRef(c).poses[i], FinalRef(c).poses[j])  P == PRel(FinalEst(c).poses[i], FinalEst(c).poses[j]) IN
                  PoseErr(c.q.rel, Q, P)
FirstReach(drv, d) == IF \E f \in 0..(NP(drv) - 1) : 2 * Path(drv, 0, f) >= d
                      THEN CHOOSE f \in 0..(NP(drv) - 1) : 2 * Path(drv, 0, f) >= d /\ \A m \in 0..(f - 1) : 2 * Path(drv, 0, m) < d ELSE -1
RpeMetersVerdict(c, o) ==
  LET drv == DrvOf(IF c.q.fromref THEN FinalRef(c) ELSE FinalEst(c))
      starts == {i \in 0..(NP(drv) - 1) : \A m \in 0..(i - 1) : 2 * Path(drv, 0, m) < c.q.delta}       \* no later than the first pose reaching delta
  IN IF \E i0 \in starts : LET prs == ChainFrom(drv, c.q.delta, i0) IN
                            /\ Len(prs) > 0
                            /\ o.ts = [k \in DOMAIN prs |-> FinalEst(c).stamps[prs[k][2] + 1]]
                            /\ o.err = [k \in DOMAIN prs |-> PairErr(c, prs[k])]
     THEN "ok" ELSE "NotTheSelectedPairsOrValues"

\* delta in degrees / radians (given here in degrees; never a sum of the lattice angles 90, 120, 180): consecutive mode = the chain from
\* pose 0 on the rotation accumulated over consecutive poses; all-pairs mode = every pair whose direct relative angle lies within
\* delta (1 +- 0.1) (evo's default relative tolerance), ordered by start pose then end pose
AngDrv(T) == [steps |-> [k \in 1..(N(T) - 1) |-> AngDeg(RRel(T.poses[k].r, T.poses[k + 1].r))], heads |-> [k \in 1..N(T) |-> 0]]
AnglePairs(c) ==
  LET T == IF c.q.fromref THEN FinalRef(c) ELSE FinalEst(c) IN
  IF ~c.q.allpairs THEN ChainFrom(AngDrv(T), 2 * c.q.delta, 0)
  ELSE LET n == N(T)
           InBand(i, j) == LET a == AngDeg(RRel(T.poses[i + 1].r, T.poses[j + 1].r)) IN 10 * a >= 9 * c.q.delta /\ 10 * a <= 11 * c.q.delta
           F[k \in 0..(n * n)] == IF k = 0 THEN <<>>
                                  ELSE LET i == (k - 1) \div n  j == (k - 1) % n IN
                                       IF i < j /\ InBand(i, j) THEN Append(F[k - 1], <<i, j>>) ELSE F[k - 1]
       IN F[n * n]
RpeAngleVerdict(c, o) ==
  LET prs == AnglePairs(c) IN
  IF /\ Len(prs) > 0
     /\ o.ts = [k \in DOMAIN prs |-> FinalEst(c).stamps[prs[k][2] + 1]]
     /\ o.err = [k \in DOMAIN prs |-> PairErr(c, prs[k])]
  THEN "ok" ELSE "NotTheSelectedPairsOrValues"

RpeExpected(c) ==       \* delta in frames: all pairs (i, i+d) or the chain 0 -> d -> 2d ...
  LET n == N(FinalEst(c))  d == c.q.delta
      starts == IF c.q.allpairs THEN [k \in 1..(IF n - d > 0 THEN n - d ELSE 0) |-> k] ELSE [k \in 1..((n - 1) \div d) |-> (k - 1) * d + 1]
  IN [k \in DOMAIN starts |->
        LET i == starts[k]  j == i + d
            Q == PRel(FinalRef(c).poses[i], FinalRef(c).poses[j])  P == PRel(FinalEst(c).poses[i], FinalEst(c).poses[j]) IN
        \* point distance: difference of the straight-line distances (positions only - also defined after a projection
        \* that leaves orientations undetermined); lengths must be integers there
        IF c.q.rel = "pdist" THEN Abs(ISqrt(Dist2(FinalRef(c).poses[i].p, FinalRef(c).poses[j].p)) - ISqrt(Dist2(FinalEst(c).poses[i].p, FinalEst(c).poses[j].p)))
        ELSE PoseErr(c.q.rel, Q, P)]
RpeStamps(c) == LET n == N(FinalEst(c))  d == c.q.delta
                    ends == IF c.q.allpairs THEN [k \in 1..(IF n - d > 0 THEN n - d ELSE 0) |-> k + d] ELSE [k \in 1..((n - 1) \div d) |-> k * d + 1]
                IN [k \in DOMAIN ends |-> FinalEst(c).stamps[ends[k]]]
NoFree(T) == \A k \in 1..N(T) : T.poses[k].r # FREE
MetricVerdict(c, o) ==
  IF o.out # "ok" THEN "ToolFailed"
  ELSE IF c.tool = "ape" THEN
       (IF Len(o.err) # N(FinalEst(c)) THEN "NotTheRemainingPosePairs"
        ELSE IF o.ts # FinalEst(c).stamps THEN "NotTheRemainingPosePairs"
        ELSE IF o.err # ApeExpected(c) THEN "StoredValuesNotTheDefinitionOnProcessedTrajectories" ELSE "ok")
  ELSE IF c.q.dunit = "m" THEN RpeMetersVerdict(c, o)
  ELSE IF c.q.dunit \in {"d", "r"} THEN RpeAngleVerdict(c, o)
  ELSE (IF o.ts # RpeStamps(c) THEN "NotTheSelectedPairs"
        ELSE IF o.err # RpeExpected(c) THEN "StoredValuesNotTheDefinitionOnProcessedTrajectories" ELSE "ok")
==============================================================================

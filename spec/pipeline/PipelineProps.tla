----------------------------- MODULE PipelineProps -----------------------------
(* P for C15 (and the file pipelines of evo_ape / evo_rpe, C01/C02): the          *)
(* documented processing order of the command line tools, composed from the       *)
(* property operators of the trajectory module (TrajectoryProps / TrajData).      *)
(*                                                                                *)
(* evo_traj:  load -> downsample -> motion filter -> merge -> time offset (not    *)
(*   the reference) -> [associate with the reference -> Umeyama (rigid / scale /  *)
(*   similarity) and/or origin alignment] -> transformation from file (left |     *)
(*   right [, propagated] [, inverted]) -> plane projection -> export.            *)
(*   The reference is only down-sampled, filtered and projected.                  *)
(*                                                                                *)
(* Inputs are lattice trajectories [poses, stamps, proj]; options `q`:            *)
(*   down (0 = off), mf (0 = off | dh half-units), merge, toff (ticks), mode      *)
(*   ("none" | "sync" | "rigid" | "sim" | "scale" | "origin" | "scaleorigin"),    *)
(*   md (max diff, ticks), tf ("none" | "left" | "right"), g, s (scale of the     *)
(*   file's matrix), inv, prop, plane ("none" | "xy" | "yz").                     *)
EXTENDS TrajData

Down(T, n) == IF n = 0 \/ N(T) <= n THEN T ELSE DocReduce(T, IF n = 1 THEN <<1>> ELSE <<1, N(T)>>)        \* n in {1, 2}: no freedom
MFilt(T, dh) == IF dh = 0 \/ N(T) < 2 THEN T ELSE DocReduce(T, IdsWhere(N(T), LAMBDA k : k \in MotionKeep(T, dh, 1000)))
\* time-sorted union of two trajectories with disjoint stamps
MergeT(A, B) ==
  LET all == [k \in 1..(N(A) + N(B)) |-> IF k <= N(A) THEN <<A.stamps[k], A.poses[k]>> ELSE <<B.stamps[k - N(A)], B.poses[k - N(A)]>>]
      Rank(k) == Cardinality({j \in DOMAIN all : all[j][1] < all[k][1]}) + 1
      sorted == [r \in DOMAIN all |-> all[CHOOSE k \in DOMAIN all : Rank(k) = r]]
  IN [poses |-> [k \in DOMAIN sorted |-> sorted[k][2]], stamps |-> [k \in DOMAIN sorted |-> sorted[k][1]], proj |-> FALSE]
Shift(T, d) == [T EXCEPT !.stamps = [k \in DOMAIN T.stamps |-> T.stamps[k] + d]]
\* association of an estimate with the reference: pairs of equal-or-near stamps (the generated constellations have no ties)
Near(ref, T, md) == {<<i, j>> \in (1..N(ref)) \X (1..N(T)) :
                       /\ Abs(ref.stamps[i] - T.stamps[j]) <= md
                       /\ \A j2 \in 1..N(T) : Abs(ref.stamps[i] - T.stamps[j]) <= Abs(ref.stamps[i] - T.stamps[j2])
                       /\ \A i2 \in 1..N(ref) : Abs(ref.stamps[i] - T.stamps[j]) <= Abs(ref.stamps[i2] - T.stamps[j])}
AssocRef(ref, T, md) == DocReduce(ref, IdsWhere(N(ref), LAMBDA i : \E pr \in Near(ref, T, md) : pr[1] = i))
AssocEst(ref, T, md) == DocReduce(T, IdsWhere(N(T), LAMBDA j : \E pr \in Near(ref, T, md) : pr[2] = j))

\* the inverse of the similarity p -> s g p + t is p -> (1/s) g^-1 (p - t): applied to a pose P
InvSimPose(g, s, P) == Pose(RM(RInv(g.r), P.r), LET d == Act(RInv(g.r), VSub(P.p, g.p)) IN <<d[1] \div s, d[2] \div s, d[3] \div s>>)
InvDivides(T, g, s) == \A k \in 1..N(T) : LET d == Act(RInv(g.r), VSub(T.poses[k].p, g.p)) IN \A i \in 1..3 : d[i] % s = 0

AlignStage(T, ref, mode) ==
  CASE mode \in {"none", "sync"} -> T
    [] mode \in {"rigid", "sim", "scale"} -> DocAlign(T, ref, mode)
    [] mode = "origin" -> DocAlign(T, ref, "origin")
    [] mode = "scaleorigin" -> DocAlign(DocAlign(T, ref, "scale"), ref, "origin")
TransformStage(T, q) ==
  IF q.tf = "none" THEN T
  ELSE IF q.tf = "left" THEN (IF q.inv THEN MapPoses(T, LAMBDA P : InvSimPose(q.g, q.s, P)) ELSE DocTransformL(T, q.g, q.s))
  ELSE LET g == IF q.inv THEN PInv(q.g) ELSE q.g IN IF q.prop THEN DocTransformProp(T, g) ELSE DocTransformR(T, g)
ProjStage(T, pl) == IF pl = "none" THEN T ELSE DocProject(T, pl)

\* the exported trajectories: <<list of estimate outputs, reference output (or <<>>)>>
RefOut(c) == IF ~c.useref THEN <<>> ELSE <<ProjStage(MFilt(Down(c.ref, c.q.down), c.q.mf), c.q.plane)>>
PreEst(c) == LET pre == [k \in DOMAIN c.trajs |-> MFilt(Down(c.trajs[k], c.q.down), c.q.mf)]
                 merged == IF c.q.merge THEN <<MergeT(pre[1], pre[2])>> ELSE pre
             IN [k \in DOMAIN merged |-> Shift(merged[k], c.q.toff)]
EstOut(c) ==
  LET ref1 == MFilt(Down(c.ref, c.q.down), c.q.mf) IN
  [k \in DOMAIN PreEst(c) |->
     LET T == PreEst(c)[k]
         synced == c.useref /\ c.q.mode # "none"
         Ta == IF synced THEN AssocEst(ref1, T, c.q.md) ELSE T
         Ra == IF synced THEN AssocRef(ref1, T, c.q.md) ELSE ref1
     IN ProjStage(TransformStage(AlignStage(Ta, Ra, IF synced THEN c.q.mode ELSE "none"), c.q), c.q.plane)]

\* observed exported file = [poses : Seq([r, p]), stamps : Seq(Int), planar : BOOLEAN]; orientation FREE is not compared
SameTraj(T, f, withStamps) ==
  /\ Len(f.poses) = N(T) /\ (withStamps => f.stamps = T.stamps)
  /\ \A k \in 1..N(T) : f.poses[k].p = T.poses[k].p /\ (T.poses[k].r = FREE \/ f.poses[k].r = T.poses[k].r)
  /\ (T.proj => f.planar)
TrajVerdict(c, o) ==
  IF o.out # "ok" THEN "ToolFailed"
  ELSE IF Len(o.est) # Len(EstOut(c)) THEN "WrongNumberOfExports"
  ELSE IF \E k \in DOMAIN o.est : ~SameTraj(EstOut(c)[k], o.est[k], c.export = "tum") THEN "ExportedTrajectoryNotAsDocumented"
  ELSE IF c.useref /\ (Len(o.ref) # 1 \/ ~SameTraj(RefOut(c)[1], o.ref[1], c.export = "tum")) THEN "ReferenceNotOnlyFilteredAndProjected"
  ELSE "ok"
==============================================================================

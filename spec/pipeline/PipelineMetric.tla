----------------------------- MODULE PipelineMetric -----------------------------
(* Generator for the file pipelines of evo_ape / evo_rpe (C01 / C02, last          *)
(* sentences): option lattice over a 5-pose reference and a denser 9-pose estimate  *)
(* that is a similarity image of the reference's underlying path.                   *)
EXTENDS PipelineProps, TLC, Json
CONSTANTS SampleK, Emit
VARIABLES c
\* the dense path: axis-aligned steps; the reference holds every second pose
DensePos == <<<<0, 0, 0>>, <<1, 0, 0>>, <<2, 0, 0>>, <<2, 2, 0>>, <<2, 4, 0>>, <<2, 4, 1>>, <<2, 4, 4>>, <<6, 4, 4>>, <<8, 4, 4>>>>
DenseRot == <<1, 7, 7, 12, 1, 18, 5, 5, 9>>
Dense == [poses |-> [k \in 1..9 |-> Pose(DenseRot[k], DensePos[k])], stamps |-> [k \in 1..9 |-> k - 1], proj |-> FALSE]
RefT == DocReduce(Dense, <<1, 3, 5, 7, 9>>)
RefHead == DocReduce(Dense, <<1, 2, 3, 4, 5>>)      \* a short, dense reference: fewer poses than a down-sampling target the estimate exceeds
GE == Pose(9, <<2, -2, 4>>)
EstT(off) == Shift(DocTransformL(Dense, GE, 2), -off)
\* an estimate whose first five poses follow one similarity (scale 2) and the rest another (scale 4): alignment from the first
\* 3 pairs (--n_to_align 3) differs from alignment on all pairs
EstSplit(off) == LET A == DocTransformL(Dense, GE, 2)  B == DocTransformL(Dense, Pose(17, <<-4, 0, 6>>), 4) IN
                 Shift([Dense EXCEPT !.poses = [k \in 1..9 |-> IF k <= 5 THEN A.poses[k] ELSE B.poses[k]]], -off)
Modes == <<"none", "sim", "scale", "origin", "scaleorigin">>
Init == \E tool \in {"ape", "rpe"}, down \in {0, 5, 3, 7}, lo \in {-1000, 2}, hi \in {1000, 6}, off \in {0, 3}, mi \in 1..5, nal \in {0, 3},
           split \in BOOLEAN, head \in BOOLEAN, pi \in 1..3, rel \in {"trans", "deg", "full", "rotpart", "pdist"}, delta \in {1, 2, 3, 5, 9, 85, 100, 120, 170}, allp \in BOOLEAN, fmt \in {"tum", "euroc", "kitti", "bag"},
           dunit \in {"f", "m", "d", "r"}, fromref \in BOOLEAN, cu \in BOOLEAN, walk \in BOOLEAN :
          LET x == [tool |-> tool, ref |-> IF walk THEN Walk ELSE IF fmt = "kitti" THEN Dense ELSE IF head THEN RefHead ELSE RefT,
                    est |-> IF walk THEN Shift(DocTransformL(Walk, GE, 1), -off) ELSE IF split THEN EstSplit(off) ELSE EstT(off), fmt |-> fmt,
                    q |-> [down |-> down, mf |-> IF walk THEN 10005 ELSE 0, lo |-> lo, hi |-> hi, md |-> 0, off |-> off, mode |-> Modes[mi], nalign |-> nal,
                           plane |-> <<"none", "xy", "yz">>[pi], rel |-> rel, delta |-> delta, allpairs |-> allp,
                           dunit |-> dunit, fromref |-> fromref, cu |-> cu]] IN
          /\ (down = 7 => walk) /\ (walk => down \in {0, 7} /\ lo = -1000 /\ hi = 1000 /\ mi \in {1, 4} /\ nal = 0 /\ ~head /\ dunit = "f" /\ ~cu /\ pi = 1 /\ rel # "pdist")
          /\ (fmt = "kitti" => off = 0 /\ lo = -1000 /\ hi = 1000 /\ ~head /\ ~walk /\ pi = 1)          \* no stamps: equally long files, pose k with pose k
          /\ (dunit \in {"d", "r"} => delta \in (IF allp THEN {85, 120} ELSE {100, 170}) /\ pi = 1 /\ down = 0 /\ ~split /\ ~cu /\ ~walk /\ rel \in {"trans", "deg"}
                                      /\ (allp => ~fromref))
          /\ (tool = "ape" => delta = 1 /\ ~allp /\ dunit = "f" /\ ~fromref)
          /\ (dunit = "f" => delta \in {1, 2} /\ ~fromref)
          /\ (dunit = "m" => delta \in {3, 5, 9} /\ ~allp /\ pi = 1 /\ rel = "trans" /\ down = 0 /\ ~split)
          /\ (cu => rel \in {"trans", "deg"} /\ dunit = "f" /\ ~split /\ ~head)          \* --change_unit mm / rad
          /\ (nal # 0 => Modes[mi] \in {"sim", "scale"})
          /\ (split <=> nal # 0) /\ (split => down = 0 /\ lo = -1000 /\ ~head)
          /\ (head => lo = -1000 /\ hi = 1000)
          /\ (Modes[mi] \in {"sim", "scale", "scaleorigin"} => down # 3 /\ (lo = -1000 \/ hi = 1000))     \* keep >= 3 non-collinear pairs
          /\ (pi # 1 => rel = (IF tool = "ape" THEN "trans" ELSE "pdist"))
          /\ (rel = "pdist" => tool = "rpe" /\ delta = 1 /\ ~allp /\ down = 0)                                                                       \* projected headings of non-planar poses are free
          /\ (down + lo + hi + 3 * off + 5 * mi + 7 * nal + 11 * pi + 13 * delta + (IF allp THEN 17 ELSE 0) + (IF tool = "ape" THEN 19 ELSE 0)
              + (IF fmt = "tum" THEN 23 ELSE IF fmt = "bag" THEN 59 ELSE 0) + (IF rel = "trans" THEN 29 ELSE IF rel = "deg" THEN 31 ELSE 37) + (IF head THEN 41 ELSE 0)
                 + (IF dunit = "m" THEN 43 ELSE 0) + (IF fromref THEN 47 ELSE 0) + (IF cu THEN 53 ELSE 0))
             % (IF walk THEN 2 ELSE IF (nal # 0 \/ (cu /\ mi = 1) \/ dunit \in {"m", "d", "r"}) /\ SampleK > 5 THEN 5 ELSE SampleK) = 0
          /\ c = x
Next == UNCHANGED c
Spec == Init /\ [][Next]_c
Judgeable(x) == /\ DownExact(x.ref, x.q.down) /\ DownExact(x.est, x.q.down)
                /\ PairsRE(x) # {}
                /\ N(SyncedEst(x)) = N(SyncedRef(x))
                /\ (x.q.nalign # 0 => AlignNDefined(SyncedEst(x), SyncedRef(x), x.q.mode, x.q.nalign))
                /\ (x.q.nalign = 0 /\ x.q.mode \in {"sim", "scale", "scaleorigin"} => AlignDefined(SyncedEst(x), SyncedRef(x), IF x.q.mode = "sim" THEN "sim" ELSE "scale"))
                /\ (x.tool = "rpe" /\ x.q.dunit = "f" => N(SyncedEst(x)) > x.q.delta)
                /\ (x.q.dunit = "m" => IntegerSteps(FinalRef(x)) /\ IntegerSteps(FinalEst(x))
                                        /\ LET drv == DrvOf(IF x.q.fromref THEN FinalRef(x) ELSE FinalEst(x)) IN
                                           FirstReach(drv, x.q.delta) >= 0 /\ Len(ChainFrom(drv, x.q.delta, FirstReach(drv, x.q.delta))) > 0)
                /\ (x.q.dunit \in {"d", "r"} => NoFree(FinalRef(x)) /\ NoFree(FinalEst(x)) /\ Len(AnglePairs(x)) > 0)
                /\ (x.q.rel = "pdist" => IntegerSteps(FinalRef(x)) /\ IntegerSteps(FinalEst(x)))
EmitCases == (Emit /\ Judgeable(c)) => PrintT(ToJson(c))
==============================================================================

-------------------------------- MODULE Pipeline --------------------------------
(* Generator for C15: the option lattice of evo_traj over lattice input files.    *)
(* The expected exports are computed by PipelineProps (EstOut / RefOut); TLC       *)
(* enumerates every admissible option combination (thorough) or a deterministic    *)
(* 1-in-K sample of the lattice (quick) and prints the cases.                      *)
EXTENDS PipelineProps, TLC, Json
CONSTANTS SampleK, Emit
VARIABLES c
GT == Pose(5, <<0, 2, 2>>)          \* the transformation written to the file (translation chosen so that inverses stay on the lattice)
Extra == Pose(3, <<6, 6, -2>>)      \* one more pose after the image of the reference (axis-aligned step of length 6), no counterpart in the reference
GE == Pose(9, <<2, -2, 4>>)          \* even translation: scale-only correction (positions / 2) stays on the lattice
EstA(toff, extra) == LET T == DocTransformL(Ref, GE, 2)
                         st == [k \in 1..4 |-> Ref.stamps[k] - toff] IN
                     IF extra THEN [poses |-> Append(T.poses, Extra), stamps |-> Append(st, 20 - toff), proj |-> FALSE]
                     ELSE [T EXCEPT !.stamps = st]
EstB(toff) == [DocTransformL(Ref, Pose(14, <<0, 3, 1>>), 1) EXCEPT !.stamps = [k \in 1..4 |-> 10 + Ref.stamps[k] - toff]]
WalkEst(toff) == Shift(DocTransformL(Walk, GE, 1), -toff)      \* a rigid image of Walk: the motion filter keeps the same poses
EstC(toff) == [DocTransformL(Ref, Pose(21, <<-3, 0, 5>>), 1) EXCEPT !.stamps = [k \in 1..4 |-> 5 + Ref.stamps[k] - toff]]      \* stamps between those of A and B
\* a reference covering the time ranges of all three estimates (A: 0..4, C: 5..9, B: 10..14): several trajectories are associated with /
\* origin-aligned to the SAME full reference, one after the other
RefWide == MergeSeq(<<Ref, Shift(DocTransformL(Ref, Pose(6, <<1, 1, 8>>), 1), 5), Shift(DocTransformL(Ref, Pose(20, <<-6, 2, 0>>), 1), 10)>>)
Modes == {"none", "sync", "rigid", "sim", "scale", "origin", "scaleorigin"}
Idx(sq, x) == CHOOSE k \in DOMAIN sq : sq[k] = x
\* a reference that starts earlier than every estimate: its first pose has no counterpart
RefLead == [poses |-> <<Pose(2, <<-4, 0, 0>>)>> \o Ref.poses, stamps |-> <<-10>> \o Ref.stamps, proj |-> FALSE]
Case(nt, useref, down, mf, merge, toff, mode, tf, s, inv, prop, plane, fmt, export) ==
  [trajs |-> IF mf >= 10000 THEN <<WalkEst(toff)>> ELSE IF nt = 1 THEN <<EstA(toff, fmt # "kitti")>> ELSE IF nt = 2 THEN <<EstA(toff, fmt # "kitti"), EstB(toff)>>
             ELSE <<EstA(toff, fmt # "kitti"), EstB(toff), EstC(toff)>>,
   ref |-> IF mf >= 10000 THEN Walk ELSE IF nt >= 2 /\ ~merge /\ mode \in {"sync", "origin"} /\ fmt # "kitti" THEN RefWide ELSE IF useref /\ fmt # "kitti" /\ (nt + down + toff) % 2 = 1 THEN RefLead ELSE Ref, useref |-> useref, fmt |-> fmt, export |-> export,
   q |-> [down |-> down, mf |-> mf, merge |-> merge, toff |-> toff, mode |-> mode, md |-> 0, tf |-> tf, g |-> GT, s |-> s,
          inv |-> inv, prop |-> prop, plane |-> plane]]
Admissible(x) ==
  /\ (x.q.merge => x.fmt # "kitti")          \* merging a single trajectory yields that trajectory
  /\ (x.q.mode # "none" => x.useref /\ (Len(x.trajs) = 1 \/ x.q.merge \/ (x.q.mode \in {"sync", "origin"} /\ x.fmt # "kitti")))
  /\ (x.q.mode \in {"rigid", "sim", "scale", "scaleorigin"} => x.q.down = 0 /\ x.q.mf = 0)        \* keep the point sets non-degenerate
  /\ (x.q.mf >= 10000 => Len(x.trajs) = 1 /\ x.q.down = 0)
  /\ (x.q.down = 9 => N(x.ref) <= 9 /\ \A k \in DOMAIN x.trajs : N(x.trajs[k]) <= 9)      \* a target above every pose count: nothing is dropped
                                                                                          \* (Down is only specified for targets 1, 2 and >= count)
  /\ (x.q.mode = "rigid" => FALSE)                                                                \* the inputs differ by a scale of 2
  /\ (x.fmt = "kitti" => x.q.toff = 0 /\ x.q.mode \notin {"sync"} /\ x.export = "kitti")
  /\ (x.q.tf = "none" => x.q.s = 1 /\ ~x.q.inv /\ ~x.q.prop)
  /\ (x.q.prop => x.q.tf # "none")          \* with --transform_left the propagation switch has no effect: still T * P
  /\ (x.q.tf = "right" => x.q.s = 1)                                  \* right-multiplying with a scaled matrix is not a documented operation
  /\ (x.q.plane # "none" /\ x.q.tf = "right" => FALSE)                \* right-multiplication needs determined orientations afterwards anyway
Weight(nt, useref, down, mf, merge, toff, mi, ti, s, inv, prop, pi, fi, ei) ==
  nt + 2 * (IF useref THEN 1 ELSE 0) + 3 * down + 5 * mf + 7 * (IF merge THEN 1 ELSE 0) + 11 * toff + 13 * mi + 17 * ti + 19 * s
  + 23 * (IF inv THEN 1 ELSE 0) + 29 * (IF prop THEN 1 ELSE 0) + 31 * pi + 37 * fi + 41 * ei
Init == \E nt \in 1..3, useref \in BOOLEAN, down \in {0, 1, 2, 9}, mf \in {0, 5, 2001, 10005}, merge \in BOOLEAN, toff \in {0, 2}, mode \in Modes,
           tf \in {"none", "left", "right"}, s \in {1, 2}, inv \in BOOLEAN, prop \in BOOLEAN, plane \in {"none", "xy", "yz"},
           fmt \in {"tum", "euroc", "kitti", "bag"}, export \in {"tum", "kitti"} :
          LET x == Case(nt, useref, down, mf, merge, toff, mode, tf, s, inv, prop, plane, fmt, export) IN
          /\ Admissible(x) /\ (mf >= 10000 => nt = 1)
          /\ Weight(nt, useref, down, mf, merge, toff, Idx(<<"none", "sync", "rigid", "sim", "scale", "origin", "scaleorigin">>, mode), Idx(<<"none", "left", "right">>, tf), s, inv, prop,
                    Idx(<<"none", "xy", "yz">>, plane), Idx(<<"tum", "euroc", "kitti", "bag">>, fmt), Idx(<<"tum", "kitti">>, export)) % SampleK = 0
          /\ c = x
Next == UNCHANGED c
Spec == Init /\ [][Next]_c
\* cases in which an inverted scaled transformation would leave the lattice are not judged (alpha could not represent them)
InvOK(x) == LET ref1 == MFilt(Down(x.ref, x.q.down), x.q.mf) IN
  \A k \in DOMAIN PreEst(x) :
     LET T == PreEst(x)[k]
         synced == x.useref /\ x.q.mode # "none"
         Ta == IF synced THEN AssocEst(ref1, T, x.q.md) ELSE T
         Ra == IF synced THEN AssocRef(ref1, T, x.q.md) ELSE ref1
     IN (x.q.tf = "left" /\ x.q.inv) => InvDivides(AlignStage(Ta, Ra, IF synced THEN x.q.mode ELSE "none"), x.q.g, x.q.s)
\* the motion filter is only judged where every step it sees has an integer length, and on at least two poses (evo refuses fewer)
MFOK(x) == x.q.mf = 0 \/ \A T \in {x.trajs[k] : k \in DOMAIN x.trajs} \cup (IF x.useref THEN {x.ref} ELSE {}) :
                            N(Down(T, x.q.down)) >= 2 /\ IntegerSteps(Down(T, x.q.down))
\* association must find something (otherwise evo refuses with its synchronisation error, which is C05's business)
SyncOK(x) == (x.useref /\ x.q.mode # "none") =>
               \A k \in DOMAIN PreEst(x) : Near(MFilt(Down(x.ref, x.q.down), x.q.mf), PreEst(x)[k], x.q.md) # {}
ASSUME LET T == DocTransformL(Ref, GE, 2) IN T.poses[4].p = <<6, 0, -2>> /\ DivisibleBy(T, 2)
EmitCases == (Emit /\ MFOK(c) /\ SyncOK(c) /\ InvOK(c)) => PrintT(ToJson(c))
==============================================================================

SPECIFICATION Spec
CONSTANTS
  MaxDepth = 3
  Builts = {"se3", "pq"}
  Kinds = {"traj", "path"}
  Emit = FALSE
  Bug = "reduce_skips_quat"
  OpsSet <- AllOps
INVARIANT ViewsConsistent
INVARIANT EmitHist
CHECK_DEADLOCK FALSE

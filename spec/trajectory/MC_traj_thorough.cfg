SPECIFICATION Spec
CONSTANTS
  MaxDepth = 4
  Builts = {"se3", "pq"}
  Kinds = {"traj", "path"}
  Emit = TRUE
  Bug = "none"
  OpsSet <- CoreOps
INVARIANT ViewsConsistent
INVARIANT EmitHist
CHECK_DEADLOCK FALSE

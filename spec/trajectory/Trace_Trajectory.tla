--------------------------- MODULE Trace_Trajectory ---------------------------
(* code -> spec: a recorded history of operations on a real evo trajectory    *)
(* object (arguments, outcome, values read through the public API, abstracted *)
(* by alpha onto O24 x Z^3) is replayed against P: truth evolves by the        *)
(* documented effect of each operation, every read and the final inspection   *)
(* of all views, derived quantities and check() must agree with it.           *)
EXTENDS TrajData, TLC, Json, IOUtils
Traces == JsonDeserialize(IOEnv.TRACE_FILE)
VARIABLES tid, l, T, verdict
tv == <<tid, l, T, verdict>>

Init == /\ tid \in 1..Len(Traces) /\ l = 1 /\ verdict = "run"
        /\ T = EstInit(Traces[tid].kind)

Judge(e) ==      \* <<verdict, new truth>>
  IF e.op.name = "Final" THEN <<FinalVerdict(T, e.obs), T>>
  ELSE IF ~Applicable(T, Ref, e.op) THEN <<"NotJudged", T>>
  ELSE LET res == Apply(T, Ref, e.op) IN
       IF e.out # res.out THEN <<IF res.out = "ok" THEN "UnexpectedError" ELSE "ErrorExpected", T>>
       ELSE <<ReadVerdict(res.T, e.op, e.obs), res.T>>

Step == /\ verdict = "run" /\ l <= Len(Traces[tid].ev)
        /\ LET e == Traces[tid].ev[l]  j == Judge(e) IN
             /\ T' = j[2]
             /\ IF j[1] = "ok" THEN verdict' = "run" /\ l' = l + 1
                ELSE /\ verdict' = j[1] /\ l' = l
                     /\ PrintT(<<"REJECT", Traces[tid].id, j[1], l, e.op.name>>)
        /\ UNCHANGED tid
Spec == Init /\ [][Step]_tv
==============================================================================

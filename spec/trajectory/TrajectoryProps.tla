--------------------------- MODULE TrajectoryProps ---------------------------
(* P for the trajectory object (C08; also the frame for C04, C11, C14):       *)
(* the documented geometric effect of every operation on the pose sequence   *)
(* an object DENOTES (`truth`), written from the property text on the exact  *)
(* domain O24 x Z^3 (ExactGeom).  An execution is allowed iff every value     *)
(* read through the public API equals the corresponding view of truth.        *)
(*                                                                            *)
(* A trajectory value: [poses : Seq([r, p]), stamps : Seq(Int) (<<>> for a    *)
(* path without time), proj : BOOLEAN].  r = 0 means "orientation left free"  *)
(* (after projecting a pose that was not a rotation about the plane normal -  *)
(* the projected heading of such poses is not determined by the property).    *)
EXTENDS ExactGeom

FREE == 0
N(T) == Len(T.poses)
HasStamps(T) == Len(T.stamps) > 0
AnyFree(T) == \E k \in 1..N(T) : T.poses[k].r = FREE

MapPoses(T, F(_)) == [T EXCEPT !.poses = [k \in 1..N(T) |-> F(T.poses[k])]]
RM(a, b) == IF a = FREE \/ b = FREE THEN FREE ELSE RMul(a, b)

\* left-multiplication by the similarity (g, s): P -> (s R p + t, R R_p)
DocTransformL(T, g, s) == MapPoses(T, LAMBDA P : Pose(RM(g.r, P.r), VAdd(VScale(s, Act(g.r, P.p)), g.p)))
\* right-multiplication: P -> P g
DocTransformR(T, g) == MapPoses(T, LAMBDA P : PMul(P, g))
\* propagating variant: every relative motion D_i becomes D_i g, first pose kept
DocTransformProp(T, g) ==
  LET F[k \in 1..N(T)] == IF k = 1 THEN T.poses[1]
                          ELSE PMul(F[k - 1], PMul(PRel(T.poses[k - 1], T.poses[k]), g))
  IN [T EXCEPT !.poses = [k \in 1..N(T) |-> F[k]]]
DocScale(T, s) == MapPoses(T, LAMBDA P : Pose(P.r, VScale(s, P.p)))
DocReduce(T, ids) == [T EXCEPT !.poses = [k \in 1..Len(ids) |-> T.poses[ids[k]]],
                               !.stamps = IF HasStamps(T) THEN [k \in 1..Len(ids) |-> T.stamps[ids[k]]] ELSE <<>>]

\* ---- selection operations (C11), deterministic instances only
IdsWhere(n, Keep(_)) ==           \* increasing sequence of the indices in 1..n satisfying Keep
  LET F[k \in 0..n] == IF k = 0 THEN <<>> ELSE IF Keep(k) THEN Append(F[k - 1], k) ELSE F[k - 1] IN F[n]
StepLen(T, k) == ISqrt(Dist2(T.poses[k].p, T.poses[k + 1].p))       \* -1 if not an integer
IntegerSteps(T) == \A k \in 1..(N(T) - 1) : StepLen(T, k) >= 0
\* motion filter: pose 1 kept; pose i kept iff path since the last kept pose >= d or angle to it >= a (degrees).
\* The distance threshold is given in HALF lattice units (dh odd), the angle threshold is never a multiple of 30:
\* no accumulated value can hit a threshold exactly, so rounding noise of earlier operations cannot decide the answer.
MotionKeep(T, dh, a) ==
  LET F[k \in 1..N(T)] ==        \* <<last kept index, path accumulated since then, kept-set>>
        IF k = 1 THEN <<1, 0, {1}>>
        ELSE LET prev == F[k - 1]
                 acc == prev[2] + StepLen(T, k - 1)
                 ang == AngDeg(RRel(T.poses[prev[1]].r, T.poses[k].r))
             IN IF 2 * acc >= dh \/ ang >= a THEN <<k, 0, prev[3] \cup {k}>> ELSE <<prev[1], acc, prev[3]>>
  IN F[N(T)][3]
CropIds(T, lo, hi) == IdsWhere(N(T), LAMBDA k : T.stamps[k] >= lo /\ T.stamps[k] <= hi)

\* ---- projection onto a coordinate plane (C14): normal axis 3 = xy, 2 = xz, 1 = yz
NormalAxis(pl) == CASE pl = "xy" -> 3 [] pl = "xz" -> 2 [] pl = "yz" -> 1
AboutAxis(r, ax) == r # FREE /\ (r = RID \/ AXIS[r] = ax)
DocProject(T, pl) ==
  LET ax == NormalAxis(pl) IN
  [MapPoses(T, LAMBDA P : Pose(IF AboutAxis(P.r, ax) THEN P.r ELSE FREE, [P.p EXCEPT ![ax] = 0]))
     EXCEPT !.proj = TRUE]

\* ---- what a read must return
PosView(T) == [k \in 1..N(T) |-> T.poses[k].p]
RotView(T) == [k \in 1..N(T) |-> T.poses[k].r]
RotMatches(obs, T) == Len(obs) = N(T) /\ \A k \in 1..N(T) : T.poses[k].r = FREE \/ obs[k] = T.poses[k].r
D2View(T) == [k \in 1..(N(T) - 1) |-> Dist2(T.poses[k].p, T.poses[k + 1].p)]

\* ---- alignment to a reference (C04) on the noise-free family est = s g ref + t (pointwise)
SimFits(T, ref) ==       \* the (g, s) with p_est_k = s g p_ref_k + t for all k (unique for non-degenerate ref)
  IF N(T) # N(ref) THEN {} ELSE
  {gs \in O24 \X (1..4) :
      LET g == gs[1]  s == gs[2]
          t == VSub(T.poses[1].p, VScale(s, Act(g, ref.poses[1].p)))
      IN \A k \in 1..N(T) : T.poses[k].p = VAdd(VScale(s, Act(g, ref.poses[k].p)), t)}
DivisibleBy(T, s) == \A k \in 1..N(T) : \A c \in 1..3 : T.poses[k].p[c] % s = 0
\* mode: "rigid" | "sim" | "scale" | "origin"
AlignDefined(T, ref, mode) ==
  /\ ~AnyFree(T)
  /\ IF mode = "origin" THEN TRUE
     ELSE \E gs \in SimFits(T, ref) :
            CASE mode = "rigid" -> gs[2] = 1
              [] mode = "sim" -> TRUE
              [] mode = "scale" -> DivisibleBy(T, gs[2])
DocAlign(T, ref, mode) ==
  IF mode = "origin"
  THEN LET T0 == PMul(ref.poses[1], PInv(T.poses[1])) IN DocTransformL(T, T0, 1)
  ELSE LET gs == CHOOSE x \in SimFits(T, ref) : TRUE
           g == gs[1]  s == gs[2]
       IN IF mode = "scale"
          THEN MapPoses(T, LAMBDA P : Pose(P.r, <<P.p[1] \div s, P.p[2] \div s, P.p[3] \div s>>))
          ELSE [T EXCEPT !.poses = [k \in 1..N(T) |-> Pose(RMul(RInv(g), T.poses[k].r), ref.poses[k].p)]]

\* ---- one operation: outcome and new denoted trajectory
Res(out, T) == [out |-> out, T |-> T]
Apply(T, ref, op) ==
  CASE op.name \in {"ReadPos", "ReadQuat", "ReadSe3", "ReadDerived", "DeepCopy"} -> Res("ok", T)
    [] op.name = "TransformL" -> Res("ok", DocTransformL(T, op.g, op.s))
    [] op.name = "TransformR" -> Res("ok", DocTransformR(T, op.g))
    [] op.name = "TransformProp" -> Res("ok", DocTransformProp(T, op.g))
    [] op.name = "Scale" -> Res("ok", DocScale(T, op.s))
    [] op.name = "Reduce" -> Res("ok", DocReduce(T, op.ids))
    [] op.name = "Downsample" ->
         IF N(T) <= op.n THEN Res("ok", T)
         ELSE IF op.n < 1 THEN Res("TrajectoryException", T)
         ELSE Res("ok", DocReduce(T, IF op.n = 1 THEN <<1>> ELSE <<1, N(T)>>))      \* n in {1,2}: no freedom
    [] op.name = "MotionFilter" ->
         Res("ok", DocReduce(T, IdsWhere(N(T), LAMBDA k : k \in MotionKeep(T, op.dh, op.a))))
    [] op.name = "Crop" ->
         IF op.lo > op.hi THEN Res("TrajectoryException", T) ELSE Res("ok", DocReduce(T, CropIds(T, op.lo, op.hi)))
    [] op.name = "Align" ->
         \* origin alignment only uses the first poses; Umeyama refuses point sets of different size
         IF op.mode # "origin" /\ N(T) # N(ref) THEN Res("GeometryException", T) ELSE Res("ok", DocAlign(T, ref, op.mode))
    [] op.name = "Project" ->
         IF T.proj THEN Res("TrajectoryException", T) ELSE Res("ok", DocProject(T, op.plane))

\* an operation instance makes sense (is generated / can be judged) in this state
Applicable(T, ref, op) ==
  CASE op.name \in {"TransformR", "TransformProp"} -> ~AnyFree(T)
    [] op.name = "Reduce" -> /\ \A k \in DOMAIN op.ids : op.ids[k] <= N(T)
                             \* repeated indices (as RPE's [0]+delta_ids produces) only without timestamps:
                             \* duplicate stamps legitimately fail check()
                             /\ (HasStamps(T) => \A k \in 1..(Len(op.ids) - 1) : op.ids[k] < op.ids[k + 1])
    [] op.name = "MotionFilter" -> ~AnyFree(T) /\ IntegerSteps(T) /\ N(T) >= 2   \* evo refuses single poses explicitly
    [] op.name = "Crop" -> HasStamps(T) /\ (op.lo > op.hi \/ CropIds(T, op.lo, op.hi) # <<>>)
    [] op.name = "Align" -> IF op.mode = "origin" THEN ~AnyFree(T) ELSE N(T) # N(ref) \/ AlignDefined(T, ref, op.mode)
    [] OTHER -> TRUE

\* ---- judging what was read (obs fields as recorded by the harness)
ReadVerdict(T, op, obs) ==
  CASE op.name = "ReadPos" -> IF obs.pos = PosView(T) THEN "ok" ELSE "PositionsDisagree"
    [] op.name = "ReadQuat" -> IF RotMatches(obs.rotq, T) THEN "ok" ELSE "QuaternionsDisagree"
    [] op.name = "ReadSe3" -> IF obs.posm = PosView(T) /\ RotMatches(obs.rotm, T) THEN "ok" ELSE "PoseMatricesDisagree"
    [] op.name = "Project" -> IF obs.planar THEN "ok" ELSE "NotInPlaneAfterProjection"
    \* derived quantities read in the middle of a history (accumulated distances, path length) follow from the current poses
    [] op.name = "ReadDerived" -> IF obs.d2 # D2View(T) THEN "DistancesDisagree" ELSE IF ~obs.plen THEN "PathLengthDisagrees" ELSE "ok"
    [] OTHER -> "ok"
FinalVerdict(T, obs) ==
  IF obs.n # N(T) THEN "CountWrong"
  ELSE IF obs.pos # PosView(T) THEN "PositionsDisagree"
  ELSE IF ~RotMatches(obs.rotq, T) THEN "QuaternionsDisagree"
  ELSE IF obs.posm # PosView(T) \/ ~RotMatches(obs.rotm, T) THEN "PoseMatricesDisagree"
  ELSE IF ~obs.xview THEN "ViewsDescribeDifferentPoses"     \* quaternions vs matrices vs positions, also where truth is FREE
  ELSE IF obs.stamps # T.stamps THEN "TimestampsDisagree"
  ELSE IF ~obs.check THEN "ValidityCheckFails"
  ELSE IF obs.d2 # D2View(T) THEN "DistancesDisagree"
  ELSE IF ~obs.plen THEN "PathLengthDisagrees"
  ELSE IF HasStamps(T) /\ obs.sp2 # D2View(T) THEN "SpeedsDisagree"
  ELSE "ok"
==============================================================================

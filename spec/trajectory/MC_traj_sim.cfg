SPECIFICATION Spec
CONSTANTS
  MaxDepth = 15
  Builts = {"se3", "pq"}
  Kinds = {"traj", "path"}
  Emit = FALSE
  Bug = "none"
  OpsSet <- AllOps
INVARIANT ViewsConsistent
INVARIANT EmitAny
CHECK_DEADLOCK FALSE

SPECIFICATION Spec
CONSTANTS
  Headings <- AllHeadings
  Emit = TRUE
INVARIANT MImpliesP
INVARIANT FindingIsReal
INVARIANT EmitCases
CHECK_DEADLOCK FALSE

------------------------------ MODULE Trajectory ------------------------------
(* M for the trajectory object (evo.core.trajectory.PosePath3D /             *)
(* PoseTrajectory3D) as the code works: three lazily filled caches           *)
(*   cse3  (list of 4x4 matrices)   cpos (n x 3 array)   cquat (n x 4 array) *)
(* of which the constructor fills either cse3 or (cpos, cquat); every        *)
(* operation updates exactly the caches the code updates, from the OLD cache *)
(* contents (not from truth).  `truth` evolves by the documented effect      *)
(* (TrajectoryProps).  TLC explores every history over the operation         *)
(* alphabet up to MaxDepth and checks ViewsConsistent in every state; every  *)
(* maximal history is printed for replay into the real object.               *)
EXTENDS TrajData, TLC, Json
CONSTANTS MaxDepth, Builts, Kinds, Emit, Bug, OpsSet

NULL == <<>>      \* an absent cache (trajectories are never empty in this model)
VARIABLES truth, built, cse3, cpos, cquat, h
vars == <<truth, built, cse3, cpos, cquat, h>>

GA == Pose(5, <<1, 0, -2>>)
GB == Pose(14, <<0, 3, 1>>)
GRot == Pose(20, <<0, 0, 0>>)
AllOps ==
  { [name |-> "ReadPos"], [name |-> "ReadQuat"], [name |-> "ReadSe3"], [name |-> "ReadDerived"], [name |-> "DeepCopy"],
    [name |-> "TransformL", g |-> GA, s |-> 1], [name |-> "TransformL", g |-> GB, s |-> 2],
    [name |-> "TransformR", g |-> GB], [name |-> "TransformR", g |-> GRot],
    [name |-> "TransformProp", g |-> GA],
    [name |-> "Scale", s |-> 2], [name |-> "Scale", s |-> 3],
    [name |-> "Reduce", ids |-> <<1, 3>>], [name |-> "Reduce", ids |-> <<2, 3, 4>>], [name |-> "Reduce", ids |-> <<1, 1, 2>>],
    [name |-> "Downsample", n |-> 2], [name |-> "Downsample", n |-> 1], [name |-> "Downsample", n |-> 0],
    [name |-> "MotionFilter", dh |-> 5, a |-> 1000], [name |-> "MotionFilter", dh |-> 2001, a |-> 100],
    [name |-> "Crop", lo |-> 1, hi |-> 3], [name |-> "Crop", lo |-> 0, hi |-> 3], [name |-> "Crop", lo |-> 3, hi |-> 1],
    [name |-> "Align", mode |-> "rigid"], [name |-> "Align", mode |-> "sim"],
    [name |-> "Align", mode |-> "scale"], [name |-> "Align", mode |-> "origin"],
    [name |-> "Project", plane |-> "xy"], [name |-> "Project", plane |-> "yz"] }
CoreOps == {o \in AllOps : o.name \in {"ReadPos", "ReadQuat", "ReadSe3", "ReadDerived", "TransformL", "TransformR", "Scale", "Reduce",
                                       "Project", "Align", "DeepCopy", "TransformProp"}
                           /\ (o.name = "Align" => o.mode \in {"sim", "origin"})
                           /\ (o.name = "Project" => o.plane = "xy")
                           /\ (o.name = "TransformL" => o.s = 2)
                           /\ (o.name = "Reduce" => o.ids = <<1, 3>>)
                           /\ (o.name = "TransformR" => o.g = GB)
                           /\ (o.name = "Scale" => o.s = 2)}

\* ---------------------------------------------------------------- cache helpers
Se3Of(pos, quat) == [k \in 1..Len(pos) |-> Pose(quat[k], pos[k])]
PosOf(se3) == [k \in 1..Len(se3) |-> se3[k].p]
QuatOf(se3) == [k \in 1..Len(se3) |-> se3[k].r]
\* self.poses_se3 / positions_xyz / orientations_quat_wxyz: fill the cache if absent
Mat == IF cse3 # NULL THEN cse3 ELSE Se3Of(cpos, cquat)
PosC == IF cpos # NULL THEN cpos ELSE PosOf(cse3)
QuatC == IF cquat # NULL THEN cquat ELSE QuatOf(cse3)
AsT(se3) == [truth EXCEPT !.poses = se3]
Slice(c, ids) == IF c = NULL THEN NULL ELSE [k \in 1..Len(ids) |-> c[ids[k]]]

Init == /\ built \in Builts
        /\ \E kind \in Kinds : truth = EstInit(kind)
        /\ cse3 = IF built = "se3" THEN truth.poses ELSE NULL
        /\ cpos = IF built = "pq" THEN PosView(truth) ELSE NULL
        /\ cquat = IF built = "pq" THEN RotView(truth) ELSE NULL
        /\ h = <<>>

\* transform(): new matrices from self.poses_se3, then positions and quaternions re-derived from them
SetAllFrom(se3) == /\ cse3' = se3 /\ cpos' = PosOf(se3)
                   /\ cquat' = IF Bug = "transform_keeps_quat" /\ cquat # NULL THEN cquat ELSE QuatOf(se3)
\* reduce_to_ids(): slice every cache that exists
ReduceCaches(ids) == /\ cse3' = Slice(cse3, ids) /\ cpos' = Slice(cpos, ids)
                     /\ cquat' = IF Bug = "reduce_skips_quat" THEN cquat ELSE Slice(cquat, ids)
ScaleCaches(s) == /\ cse3' = IF cse3 = NULL THEN NULL ELSE [k \in 1..Len(cse3) |-> Pose(cse3[k].r, VScale(s, cse3[k].p))]
                  /\ cpos' = IF cpos = NULL \/ Bug = "scale_skips_pos" THEN cpos ELSE [k \in 1..Len(cpos) |-> VScale(s, cpos[k])]
                  /\ UNCHANGED cquat

Do(op) ==
  LET res == Apply(truth, Ref, op) IN
  /\ truth' = res.T
  /\ h' = Append(h, op)
  /\ UNCHANGED built
  /\ IF res.out # "ok" THEN
       \* exceptions: align reads positions before failing (fills cpos); the others touch nothing
       IF op.name = "Align" THEN cpos' = PosC /\ UNCHANGED <<cse3, cquat>> ELSE UNCHANGED <<cse3, cpos, cquat>>
     ELSE
     CASE op.name \in {"ReadPos", "ReadDerived"} -> cpos' = PosC /\ UNCHANGED <<cse3, cquat>>      \* distances / path_length use positions_xyz
       [] op.name = "ReadQuat" -> cquat' = QuatC /\ UNCHANGED <<cse3, cpos>>
       [] op.name = "ReadSe3" -> cse3' = Mat /\ UNCHANGED <<cpos, cquat>>
       [] op.name = "DeepCopy" -> UNCHANGED <<cse3, cpos, cquat>>
       [] op.name = "TransformL" -> SetAllFrom(DocTransformL(AsT(Mat), op.g, op.s).poses)
       [] op.name = "TransformR" -> SetAllFrom(DocTransformR(AsT(Mat), op.g).poses)
       [] op.name = "TransformProp" -> SetAllFrom(DocTransformProp(AsT(Mat), op.g).poses)
       [] op.name = "Scale" -> ScaleCaches(op.s)
       [] op.name = "Reduce" -> ReduceCaches(op.ids)
       [] op.name = "Downsample" -> IF N(truth) <= op.n THEN UNCHANGED <<cse3, cpos, cquat>>
                                    ELSE ReduceCaches(IF op.n = 1 THEN <<1>> ELSE <<1, N(truth)>>)
       [] op.name = "MotionFilter" ->      \* filter_by_motion(self.poses_se3, ...) fills cse3 first
            LET ids == IdsWhere(Len(Mat), LAMBDA k : k \in MotionKeep(AsT(Mat), op.dh, op.a)) IN
            /\ cse3' = Slice(Mat, ids) /\ cpos' = Slice(cpos, ids) /\ cquat' = Slice(cquat, ids)
       [] op.name = "Crop" -> ReduceCaches(CropIds(truth, op.lo, op.hi))
       [] op.name = "Align" ->
            \* origin: transform(ref0 * inv(self.poses_se3[0])); others: umeyama on positions, then scale and/or transform
            IF op.mode = "origin" THEN SetAllFrom(DocAlign(AsT(Mat), Ref, "origin").poses)
            ELSE IF op.mode = "scale"
                 THEN LET sc == DocAlign([truth EXCEPT !.poses = Se3Of(PosC, [k \in 1..Len(PosC) |-> RID])], Ref, "scale") IN
                      /\ cpos' = PosView(sc)
                      /\ cse3' = IF cse3 = NULL THEN NULL ELSE [k \in 1..Len(cse3) |-> Pose(cse3[k].r, PosView(sc)[k])]
                      /\ UNCHANGED cquat
                 ELSE SetAllFrom(DocAlign(AsT(Mat), Ref, op.mode).poses)
       [] op.name = "Project" ->      \* edits (copies of) the matrices, drops the other two caches
            /\ cse3' = DocProject(AsT(Mat), op.plane).poses
            /\ cpos' = IF Bug = "project_no_flush" THEN cpos ELSE NULL
            /\ cquat' = IF Bug = "project_no_flush" THEN cquat ELSE NULL

Next == /\ Len(h) < MaxDepth
        /\ \E op \in OpsSet : Applicable(truth, Ref, op) /\ Do(op)
Spec == Init /\ [][Next]_vars

\* ---------------------------------------------------------------- M => P
RotAgree(c, T) == Len(c) = N(T) /\ \A k \in 1..N(T) : T.poses[k].r = FREE \/ c[k] = T.poses[k].r \/ c[k] = FREE
ViewsConsistent ==
  /\ cpos # NULL => cpos = PosView(truth)
  /\ cquat # NULL => RotAgree(cquat, truth)
  /\ cse3 # NULL => PosOf(cse3) = PosView(truth) /\ RotAgree(QuatOf(cse3), truth)
  /\ (cse3 # NULL \/ (cpos # NULL /\ cquat # NULL))
EmitAny == Len(h) >= 1 =>          \* simulation runs: print the history at every state (the harness keeps the longest prefix of each behaviour)
   PrintT(ToJson([built |-> built, kind |-> IF truth.stamps # <<>> THEN "traj" ELSE "path", h |-> h,
                  caches |-> <<cse3 # NULL, cpos # NULL, cquat # NULL>>]))
EmitHist == (Emit /\ Len(h) = MaxDepth) =>
   PrintT(ToJson([built |-> built, stamps |-> truth.stamps # <<>> \/ \E k \in DOMAIN h : FALSE,
                  kind |-> IF HasStamps(EstInit("traj")) /\ truth.stamps # <<>> THEN "traj" ELSE "path",
                  h |-> h, caches |-> <<cse3 # NULL, cpos # NULL, cquat # NULL>>]))
==============================================================================

--------------------------- MODULE ProjectionProps ---------------------------
(* P for C14: projecting a trajectory onto a coordinate plane.               *)
(* Input pose kinds:                                                          *)
(*   "planar": position in the plane, orientation = rotation about the plane *)
(*             normal by h degrees, h in -179..180 (exact domain H360)        *)
(*   "o24"   : any of the 24 axis-permuting attitudes (incl. all gimbal-lock *)
(*             attitudes), integer position anywhere                          *)
(* Observation per pose: p (integer position), about (pure rotation about    *)
(* the normal), h (integer heading, 999 if none), r (O24 index, -1 if none),  *)
(* valid (passes evo's SE(3) test).                                           *)
EXTENDS ExactGeom
NormalAxis(pl) == CASE pl = "xy" -> 3 [] pl = "xz" -> 2 [] pl = "yz" -> 1
Flat(p, ax) == [p EXCEPT ![ax] = 0]

PoseVerdict(pl, in, out) ==
  LET ax == NormalAxis(pl) IN
  IF out.p # Flat(in.p, ax) THEN "PositionNotProjected"
  ELSE IF ~out.valid THEN "NotAValidPose"
  ELSE IF ~out.about THEN "OrientationNotAboutNormal"
  ELSE IF in.kind = "planar" /\ out.h # in.h THEN "PlanarPoseChanged"
  ELSE IF in.kind = "o24" /\ (in.r = RID \/ AXIS[in.r] = ax) /\ out.r # in.r THEN "PlanarPoseChanged"
  ELSE "ok"

\* whole call: c = [plane, poses : Seq(in)], o = [out : "ok"|exception, n, poses : Seq(out), stamps_same, xview, second]
Verdict(c, o) ==
  IF o.out # "ok" THEN "ProjectionRefused"
  ELSE IF o.n # Len(c.poses) THEN "CountChanged"
  ELSE IF \E k \in DOMAIN c.poses : PoseVerdict(c.plane, c.poses[k], o.poses[k]) # "ok"
       THEN PoseVerdict(c.plane, c.poses[CHOOSE k \in DOMAIN c.poses : PoseVerdict(c.plane, c.poses[k], o.poses[k]) # "ok"],
                        o.poses[CHOOSE k \in DOMAIN c.poses : PoseVerdict(c.plane, c.poses[k], o.poses[k]) # "ok"])
  ELSE IF ~o.stamps_same THEN "TimestampsChanged"
  ELSE IF ~o.xview THEN "ViewsDescribeDifferentPoses"
  ELSE IF o.second # "TrajectoryException" THEN "SecondProjectionNotRefused"
  ELSE IF "third" \in DOMAIN o /\ o.third # "TrajectoryException" THEN "SecondProjectionNotRefused"        \* after a transformation in between
  \* a metric computed "projected to the plane" with this (already projected) object as reference: either that is refused, or the
  \* estimate it was computed on really lies in the plane - never a silently skipped projection
  ELSE IF "ape2" \in DOMAIN o /\ o.ape2 = "nonplanar" THEN "ProjectionSilentlySkipped"
  ELSE "ok"
==============================================================================

------------------------------ MODULE Projection ------------------------------
(* M for C14: project() as the code does it: zero the normal coordinate and   *)
(* replace the rotation by so3_exp(normal * euler_sxyz(R)[normal index]).     *)
(* On the exact domains the sxyz Euler angle about the normal is known:       *)
(*   planar pose, plane xy (z): h;  plane yz (x): h;                          *)
(*   plane xz (y): the MIDDLE Euler angle, limited to [-90, 90]: h for        *)
(*   |h| <= 90, else 180 - h (resp. -180 - h) -- the recorded finding.        *)
(* TLC enumerates plane x heading (all 360) and plane x O24 attitude, checks  *)
(* M => P up to that finding, and prints the cases.                           *)
EXTENDS ProjectionProps, TLC, Json
CONSTANTS Headings, Emit
VARIABLES plane, in, out, pc
vars == <<plane, in, out, pc>>
Planes == {"xy", "xz", "yz"}
InPlanePos(pl) == Flat(<<3, -2, 5>>, NormalAxis(pl))
Init == /\ plane \in Planes
        /\ in \in {[kind |-> "planar", h |-> hh, p |-> InPlanePos(plane)] : hh \in Headings}
               \cup {[kind |-> "o24", r |-> rr, p |-> <<3, -2, 5>>] : rr \in O24}
        /\ out = [p |-> <<0, 0, 0>>] /\ pc = "call"
MHeading(pl, hh) == IF pl = "xz" /\ hh > 90 THEN 180 - hh ELSE IF pl = "xz" /\ hh < -90 THEN -180 - hh ELSE hh
Project == /\ pc = "call" /\ pc' = "done"
           /\ out' = IF in.kind = "planar"
                     THEN [p |-> Flat(in.p, NormalAxis(plane)), about |-> TRUE, valid |-> TRUE, h |-> MHeading(plane, in.h), r |-> -1]
                     ELSE [p |-> Flat(in.p, NormalAxis(plane)), about |-> TRUE, valid |-> TRUE, h |-> 999,
                           r |-> IF plane = "xz" /\ PERM[in.r] = <<-1, 2, -3>> THEN RID      \* heading 180 about y: same finding
                                 ELSE IF in.r = RID \/ AXIS[in.r] = NormalAxis(plane) THEN in.r ELSE -1]
           /\ UNCHANGED <<plane, in>>
Spec == Init /\ [][Project]_vars
KnownFinding == plane = "xz" /\ IF in.kind = "planar" THEN in.h > 90 \/ in.h < -90 ELSE PERM[in.r] = <<-1, 2, -3>>
MImpliesP == pc = "done" => (PoseVerdict(plane, in, out) = "ok" \/ KnownFinding)
FindingIsReal == (pc = "done" /\ KnownFinding) => PoseVerdict(plane, in, out) = "PlanarPoseChanged"
EmitCases == (Emit /\ pc = "done") => PrintT(ToJson([plane |-> plane, in |-> in, m |-> out]))
AllHeadings == -179..180
CriticalHeadings == {-179, -135, -91, -90, -89, -45, -1, 0, 1, 30, 45, 89, 90, 91, 120, 135, 179, 180}
==============================================================================

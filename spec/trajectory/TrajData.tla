------------------------------ MODULE TrajData ------------------------------
(* The fixed reference / initial estimate of the trajectory machine (shared by *)
(* the model, the trace specification and - through JSON - the harness).       *)
(* Ref: 4 poses, non-coplanar positions, axis-aligned steps of length 1, 2, 3, *)
(* mixed orientations.  The estimate starts as the similarity image            *)
(* 2 * G0 * Ref, so that every alignment mode has an exactly known result.     *)
EXTENDS TrajectoryProps
RefPoses == <<Pose(1, <<0, 0, 0>>), Pose(7, <<1, 0, 0>>), Pose(12, <<1, 2, 0>>), Pose(18, <<1, 2, 3>>)>>
Ref == [poses |-> RefPoses, stamps |-> <<0, 1, 3, 4>>, proj |-> FALSE]
G0 == Pose(9, <<2, -1, 4>>)
EstInit(kind) == LET T == DocTransformL(Ref, G0, 2) IN
                 [T EXCEPT !.stamps = IF kind = "traj" THEN <<0, 1, 3, 4>> ELSE <<>>]

==============================================================================

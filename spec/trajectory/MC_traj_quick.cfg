SPECIFICATION Spec
CONSTANTS
  MaxDepth = 3
  Builts = {"se3", "pq"}
  Kinds = {"traj", "path"}
  Emit = TRUE
  Bug = "none"
  OpsSet <- AllOps
INVARIANT ViewsConsistent
INVARIANT EmitHist
CHECK_DEADLOCK FALSE

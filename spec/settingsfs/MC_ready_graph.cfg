SPECIFICATION Spec
CONSTANTS
  Procs = {"p1", "p2"}
  Atomic = TRUE
  MaxCrash = 0
  Scenario = "ready"
  EditOps = {"none", "resetcli"}
CHECK_DEADLOCK FALSE

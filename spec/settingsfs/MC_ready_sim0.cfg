SPECIFICATION Spec
CONSTANTS
  Procs = {"p1", "p2"}
  Atomic = TRUE
  MaxCrash = 0
  Scenario = "ready"
  EditOps = {"none", "reset", "set", "resetsub", "resetcli"}
INVARIANT SimPrint
CHECK_DEADLOCK FALSE

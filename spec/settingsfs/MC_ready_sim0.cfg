SPECIFICATION Spec
CONSTANTS
  Procs = {"p1", "p2"}
  Atomic = TRUE
  MaxCrash = 0
  Scenario = "ready"
  EditOps = {"none", "reset", "set", "resetsub"}
INVARIANT SimPrint
CHECK_DEADLOCK FALSE

SPECIFICATION Spec
CONSTANTS
  Procs = {"p1", "p2"}
  Atomic = TRUE
  MaxCrash = 0
  Scenario = "upgrade"
  EditOps = {"none", "set"}
CHECK_DEADLOCK FALSE

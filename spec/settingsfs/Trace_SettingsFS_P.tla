------------------------- MODULE Trace_SettingsFS_P -------------------------
(* P alone, on observations only (no model state): after every primitive of  *)
(* every process, and after every kill, settings.json on disk is absent or a *)
(* complete JSON document; no started process ends with an error; every      *)
(* process that loaded its settings saw all default keys.                     *)
EXTENDS Naturals, Sequences, TLC, Json, IOUtils
Traces == JsonDeserialize(IOEnv.TRACE_FILE)
VARIABLES tid, verdict

BadCfg(ev) == {k \in DOMAIN ev : ev[k].cfg \notin {"absent", "full", "fullold"}}
BadExit(ev) == {k \in DOMAIN ev : ev[k].op = "exit" /\ ev[k].res # "ok"}
BadKeys(ev) == {k \in DOMAIN ev : ev[k].op = "exit" /\ ev[k].res = "ok" /\ ev[k].keys # "all"}
Min(S) == CHOOSE x \in S : \A y \in S : x <= y
Verdict(ev) ==
  IF BadCfg(ev) # {} THEN <<"SettingsFileNotComplete", Min(BadCfg(ev)), ev[Min(BadCfg(ev))].cfg>>
  ELSE IF BadExit(ev) # {} THEN <<"StartedProcessFailed", Min(BadExit(ev)), ev[Min(BadExit(ev))].res>>
  ELSE IF BadKeys(ev) # {} THEN <<"LoadMissesDefaultKeys", Min(BadKeys(ev)), "-">>
  ELSE <<"ok", 0, "-">>

Init == tid \in 1..Len(Traces) /\ verdict = "pending"
Next == /\ verdict = "pending"
        /\ LET v == Verdict(Traces[tid].ev) IN
             /\ verdict' = v[1]
             /\ (v[1] # "ok" => PrintT(<<"REJECT", Traces[tid].id, v[1], v[2], v[3]>>))
        /\ UNCHANGED tid
Spec == Init /\ [][Next]_<<tid, verdict>>
==============================================================================

----------------------------- MODULE SettingsFS -----------------------------
(* M for C19: the life-cycle of ~/.evo/{assets_version,settings.json} as the  *)
(* code performs it, one action per file-system primitive:                    *)
(*   import evo.tools.settings = initialize_if_needed; update_if_outdated;    *)
(*   SettingsContainer.from_json_file, optionally followed by one editing     *)
(*   operation (evo_config reset / set / set --merge), all of which go        *)
(*   through write_to_json_file.                                              *)
(* Atomic = TRUE : the repaired protocol (temp file + os.replace,             *)
(*                 mkdir(exist_ok=True)).                                     *)
(* Atomic = FALSE: the protocol before the fix (truncate and write in place,  *)
(*                 plain mkdir) - kept so that TLC must refute it.            *)
(* Crash(p) is enabled at every step.  Python buffers the ~1.8 kB document,   *)
(* so bytes reach the disk when the file is closed; the close is modelled as  *)
(* two partial writes.  P: settings.json is absent or a complete document in  *)
(* every reachable state, no started process fails, every load sees all      *)
(* default keys.                                                              *)
EXTENDS Naturals, Sequences, FiniteSets, TLC
CONSTANTS Procs,        \* process ids; each is started at most once
          Atomic,       \* which write protocol
          MaxCrash,     \* how many processes may be killed
          Scenario,     \* "fresh" | "nodir_files" | "upgrade" | "ready"
          EditOps       \* subset of {"none","reset","set"}: what a process does after loading

VARIABLES dir, ver, cfg,      \* the shared file system: ~/.evo exists; contents of assets_version / settings.json
          tmp,                \* tmp[p]: the process-private temporary file
          pc, op, rd, loaded, crashes,
          last                \* observation only: the primitive just performed (for trace conformance)
vars == <<dir, ver, cfg, tmp, pc, op, rd, loaded, crashes, last>>
ViewNoLast == <<dir, ver, cfg, tmp, pc, op, rd, loaded, crashes>>

VerVals == {"absent", "empty", "old", "cur"}
CfgVals == {"absent", "empty", "partial", "full", "fullold"}   \* fullold: complete JSON of an older version (keys missing)
Complete(c) == c \in {"full", "fullold"}

InitFS == CASE Scenario = "fresh"   -> dir = FALSE /\ ver = "absent" /\ cfg = "absent"
            [] Scenario = "dironly" -> dir = TRUE  /\ ver = "absent" /\ cfg = "absent"
            [] Scenario = "upgrade" -> dir = TRUE  /\ ver = "old"    /\ cfg = "fullold"
            [] Scenario = "ready"   -> dir = TRUE  /\ ver = "cur"    /\ cfg = "full"

Init == /\ InitFS
        /\ tmp = [p \in Procs |-> "absent"]
        /\ pc = [p \in Procs |-> "idle"]
        /\ op \in [Procs -> EditOps]
        /\ rd = [p \in Procs |-> "none"]
        /\ loaded = [p \in Procs |-> "none"]
        /\ crashes = 0
        /\ last = [p |-> "-", op |-> "init", path |-> "-", res |-> "-"]

Obs(p, o, path, res) == last' = [p |-> p, op |-> o, path |-> path, res |-> res]
Goto(p, l) == pc' = [pc EXCEPT ![p] = l]

\* ---------------------------------------------------------------- start / crash
Start(p) == /\ pc[p] = "idle" /\ Goto(p, "ChkDir") /\ Obs(p, "start", "-", "-")
            /\ UNCHANGED <<dir, ver, cfg, tmp, op, rd, loaded, crashes>>

Running(p) == pc[p] \notin {"idle", "done", "fail", "crashed"}
Crash(p) == /\ Running(p) /\ crashes < MaxCrash
            /\ Goto(p, "crashed") /\ crashes' = crashes + 1 /\ Obs(p, "crash", "-", "-")
            /\ UNCHANGED <<dir, ver, cfg, tmp, op, rd, loaded>>

Fail(p, exc, o, path) == /\ Goto(p, "fail") /\ Obs(p, o, path, exc)

\* ---------------------------------------------------------------- initialize_if_needed
ChkDir(p) == /\ pc[p] = "ChkDir"
             /\ Goto(p, IF dir THEN "ChkVer" ELSE "Mkdir")
             /\ Obs(p, "exists", "dir", IF dir THEN "T" ELSE "F")
             /\ UNCHANGED <<dir, ver, cfg, tmp, op, rd, loaded, crashes>>
Mkdir(p) == /\ pc[p] = "Mkdir"
            /\ IF dir /\ ~Atomic
               THEN Fail(p, "FileExistsError", "mkdir", "dir") /\ UNCHANGED dir
               ELSE dir' = TRUE /\ Goto(p, "ChkVer") /\ Obs(p, "mkdir", "dir", "ok")
            /\ UNCHANGED <<ver, cfg, tmp, op, rd, loaded, crashes>>
ChkVer(p) == /\ pc[p] = "ChkVer"
             /\ Goto(p, IF ver # "absent" THEN "ChkCfg" ELSE "OpenVer")
             /\ Obs(p, "exists", "ver", IF ver # "absent" THEN "T" ELSE "F")
             /\ UNCHANGED <<dir, ver, cfg, tmp, op, rd, loaded, crashes>>
\* open(assets_version, 'w'): truncates; the 7 bytes arrive when the file object is dropped
OpenVer(p, from, to) == /\ pc[p] = from /\ ver' = "empty" /\ Goto(p, to) /\ Obs(p, "open_w", "ver", "ok")
                        /\ UNCHANGED <<dir, cfg, tmp, op, rd, loaded, crashes>>
WriteVer(p, from, to) == /\ pc[p] = from /\ ver' = "cur" /\ Goto(p, to) /\ Obs(p, "write", "ver", "2")
                         /\ UNCHANGED <<dir, cfg, tmp, op, rd, loaded, crashes>>
ChkCfg(p) == /\ pc[p] = "ChkCfg"
             /\ Goto(p, IF cfg # "absent" THEN "RdVerOpen" ELSE "I_RChk")
             /\ Obs(p, "exists", "cfg", IF cfg # "absent" THEN "T" ELSE "F")
             /\ UNCHANGED <<dir, ver, cfg, tmp, op, rd, loaded, crashes>>
\* reset(destination) asks again; with parameter_subset = None it writes the defaults either way
InitResetChk(p) == /\ pc[p] = "I_RChk" /\ Goto(p, "I_W0")
                   /\ Obs(p, "exists", "cfg", IF cfg # "absent" THEN "T" ELSE "F")
                   /\ UNCHANGED <<dir, ver, cfg, tmp, op, rd, loaded, crashes>>

\* ---------------------------------------------------------------- write_to_json_file(settings.json, complete document)
\* labels <pfx>_W0 .. <pfx>_W3, then `to`
WOpen(p, pfx, to) ==
  /\ pc[p] = pfx \o "_W0"
  /\ IF Atomic THEN tmp' = [tmp EXCEPT ![p] = "empty"] /\ UNCHANGED cfg /\ Obs(p, "open_w", "tmp", "ok")
               ELSE cfg' = "empty" /\ UNCHANGED tmp /\ Obs(p, "open_w", "cfg", "ok")
  /\ Goto(p, pfx \o "_W1") /\ UNCHANGED <<dir, ver, op, rd, loaded, crashes>>
WPart1(p, pfx) ==
  /\ pc[p] = pfx \o "_W1"
  /\ IF Atomic THEN tmp' = [tmp EXCEPT ![p] = "partial"] /\ UNCHANGED cfg /\ Obs(p, "write", "tmp", "1")
               ELSE cfg' = "partial" /\ UNCHANGED tmp /\ Obs(p, "write", "cfg", "1")
  /\ Goto(p, pfx \o "_W2") /\ UNCHANGED <<dir, ver, op, rd, loaded, crashes>>
WPart2(p, pfx, to) ==
  /\ pc[p] = pfx \o "_W2"
  /\ IF Atomic THEN tmp' = [tmp EXCEPT ![p] = "full"] /\ UNCHANGED cfg /\ Obs(p, "write", "tmp", "2") /\ Goto(p, pfx \o "_W3")
               ELSE cfg' = "full" /\ UNCHANGED tmp /\ Obs(p, "write", "cfg", "2") /\ Goto(p, to)
  /\ UNCHANGED <<dir, ver, op, rd, loaded, crashes>>
WReplace(p, pfx, to) ==
  /\ pc[p] = pfx \o "_W3" /\ Atomic
  /\ cfg' = tmp[p] /\ tmp' = [tmp EXCEPT ![p] = "absent"]
  /\ Obs(p, "replace", "cfg", "ok") /\ Goto(p, to)
  /\ UNCHANGED <<dir, ver, op, rd, loaded, crashes>>
Write(p, pfx, to) == WOpen(p, pfx, to) \/ WPart1(p, pfx) \/ WPart2(p, pfx, to) \/ WReplace(p, pfx, to)

\* ---------------------------------------------------------------- reading a file: open, then read
\* With os.replace the opened inode keeps its (complete) content; in-place writers change what a reader sees.
\* assets_version is written in place in both protocols (conformance run: a reader that opened it before another
\* process's upgrade rewrote it reads the new content), so its reads are always "live".
OpenR(p, from, to, path) ==
  /\ pc[p] = from
  /\ LET c == IF path = "ver" THEN ver ELSE cfg IN
       IF c = "absent" THEN Fail(p, "FileNotFoundError", "open_r", path) /\ UNCHANGED rd
       ELSE Goto(p, to) /\ Obs(p, "open_r", path, "ok") /\ rd' = [rd EXCEPT ![p] = IF Atomic /\ path = "cfg" THEN c ELSE "live"]
  /\ UNCHANGED <<dir, ver, cfg, tmp, op, loaded, crashes>>
Seen(p, path) == IF rd[p] = "live" THEN (IF path = "ver" THEN ver ELSE cfg) ELSE rd[p]

\* ---------------------------------------------------------------- update_if_outdated
RdVerRead(p) == /\ pc[p] = "RdVerRead"
                /\ Goto(p, IF Seen(p, "ver") = "cur" THEN "LoadOpen" ELSE "U_RdOpen")
                /\ Obs(p, "read", "ver", Seen(p, "ver"))
                /\ UNCHANGED <<dir, ver, cfg, tmp, op, rd, loaded, crashes>>
JsonRead(p, from, to, tag) ==       \* json.load of settings.json
  /\ pc[p] = from
  /\ IF Complete(Seen(p, "cfg"))
     THEN Goto(p, to) /\ Obs(p, "read", "cfg", Seen(p, "cfg"))
          /\ loaded' = IF tag = "load" THEN [loaded EXCEPT ![p] = IF Seen(p, "cfg") = "full" THEN "all" ELSE "missing"]
                       ELSE loaded
     ELSE Fail(p, "JSONDecodeError", "read", "cfg") /\ UNCHANGED loaded
  /\ UNCHANGED <<dir, ver, cfg, tmp, op, rd, crashes>>

\* ---------------------------------------------------------------- evo_config reset / set after the import
EditStart(p) == /\ pc[p] = "E_Begin"
                /\ IF op[p] = "none" THEN Goto(p, "done") /\ Obs(p, "exit", "-", "ok")
                   ELSE IF op[p] = "reset" THEN Goto(p, "R_Chk") /\ Obs(p, "edit", "-", "reset")
                   ELSE IF op[p] = "resetsub" THEN Goto(p, "R2_Chk") /\ Obs(p, "edit", "-", "resetsub")
                   ELSE IF op[p] = "resetcli" THEN Goto(p, "RC_Chk") /\ Obs(p, "edit", "-", "resetcli")
                   ELSE Goto(p, "S_RdOpen") /\ Obs(p, "edit", "-", "set")
                /\ UNCHANGED <<dir, ver, cfg, tmp, op, rd, loaded, crashes>>
ResetChk(p) == /\ pc[p] = "R_Chk" /\ Goto(p, "R_W0")      \* reset(): `not destination.exists() or subset is None`
               /\ Obs(p, "exists", "cfg", IF cfg # "absent" THEN "T" ELSE "F")
               /\ UNCHANGED <<dir, ver, cfg, tmp, op, rd, loaded, crashes>>
ResetSubChk(p) == /\ pc[p] = "R2_Chk"                      \* reset(subset): exists, then read-modify-write
                  /\ Goto(p, IF cfg # "absent" THEN "S_RdOpen" ELSE "R_W0")
                  /\ Obs(p, "exists", "cfg", IF cfg # "absent" THEN "T" ELSE "F")
                  /\ UNCHANGED <<dir, ver, cfg, tmp, op, rd, loaded, crashes>>
\* `evo_config reset -y` (main_config.main): settings.reset() as above, then the new file is shown (read again)
ResetCliChk(p) == /\ pc[p] = "RC_Chk" /\ Goto(p, "RC_W0")
                  /\ Obs(p, "exists", "cfg", IF cfg # "absent" THEN "T" ELSE "F")
                  /\ UNCHANGED <<dir, ver, cfg, tmp, op, rd, loaded, crashes>>
Exit(p) == /\ pc[p] = "E_End" /\ Goto(p, "done") /\ Obs(p, "exit", "-", "ok")
           /\ UNCHANGED <<dir, ver, cfg, tmp, op, rd, loaded, crashes>>

Step(p) ==
  \/ ChkDir(p) \/ Mkdir(p) \/ ChkVer(p)
  \/ OpenVer(p, "OpenVer", "WriteVer") \/ WriteVer(p, "WriteVer", "ChkCfg")
  \/ ChkCfg(p) \/ InitResetChk(p) \/ Write(p, "I", "RdVerOpen")
  \/ OpenR(p, "RdVerOpen", "RdVerRead", "ver") \/ RdVerRead(p)
  \/ OpenR(p, "U_RdOpen", "U_RdRead", "cfg") \/ JsonRead(p, "U_RdRead", "U_W0", "upg")
  \/ Write(p, "U", "U_OpenVer")
  \/ OpenVer(p, "U_OpenVer", "U_WriteVer") \/ WriteVer(p, "U_WriteVer", "LoadOpen")
  \/ OpenR(p, "LoadOpen", "LoadRead", "cfg") \/ JsonRead(p, "LoadRead", "E_Begin", "load")
  \/ EditStart(p) \/ ResetChk(p) \/ ResetSubChk(p) \/ Write(p, "R", "E_End")
  \/ OpenR(p, "S_RdOpen", "S_RdRead", "cfg") \/ JsonRead(p, "S_RdRead", "S_W0", "set")
  \/ Write(p, "S", "E_End") \/ Exit(p)
  \/ ResetCliChk(p) \/ Write(p, "RC", "RC_ShowOpen")
  \/ OpenR(p, "RC_ShowOpen", "RC_ShowRead", "cfg") \/ JsonRead(p, "RC_ShowRead", "E_End", "show")

Next == \E p \in Procs : Start(p) \/ Step(p) \/ Crash(p)
Spec == Init /\ [][Next]_vars

\* ---------------------------------------------------------------- P (C19)
SettingsFileComplete == cfg \in {"absent", "full", "fullold"}
NoProcessFails == \A p \in Procs : pc[p] # "fail"
LoadSeesAllKeys == \A p \in Procs : loaded[p] \in {"none", "all"}
SimPrint == PrintT(<<"H", TLCGet("level"), last.p, last.op, op["p1"], op["p2"]>>)   \* simulation cfgs only (Procs = {"p1","p2"})
TypeOK == /\ ver \in VerVals /\ cfg \in CfgVals /\ dir \in BOOLEAN
          /\ \A p \in Procs : tmp[p] \in {"absent", "empty", "partial", "full"}
==============================================================================

SPECIFICATION Spec
CONSTANTS
  Procs = {"p1", "p2"}
  Atomic = TRUE
  MaxCrash = 1
  Scenario = "upgrade"
  EditOps = {"none", "reset", "set", "resetsub", "resetcli"}
INVARIANT SimPrint
CHECK_DEADLOCK FALSE

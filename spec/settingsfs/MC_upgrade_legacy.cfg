SPECIFICATION Spec
CONSTANTS
  Procs = {p1, p2, p3}
  Atomic = FALSE
  MaxCrash = 2
  Scenario = "upgrade"
  EditOps = {"none", "reset", "set", "resetsub", "resetcli"}
VIEW ViewNoLast
INVARIANT TypeOK
INVARIANT SettingsFileComplete
INVARIANT NoProcessFails
INVARIANT LoadSeesAllKeys
CHECK_DEADLOCK FALSE

SPECIFICATION Spec
CONSTANTS
  Procs = {"p1", "p2"}
  Atomic = TRUE
  MaxCrash = 0
  Scenario = "fresh"
  EditOps = {"none"}
CHECK_DEADLOCK FALSE

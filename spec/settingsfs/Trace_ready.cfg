SPECIFICATION TSpec
CONSTANTS
  Procs = {"p1", "p2", "p3"}
  Atomic = TRUE
  MaxCrash = 3
  Scenario = "ready"
  EditOps = {"none", "reset", "set", "resetsub", "resetcli"}
INVARIANT Progress
CHECK_DEADLOCK FALSE

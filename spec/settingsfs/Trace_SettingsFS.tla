-------------------------- MODULE Trace_SettingsFS --------------------------
(* code ~ M: every primitive a real evo process performed (recorded by the   *)
(* run-time wrappers in harness/vproc.py, under a schedule/crash point chosen *)
(* by the harness) must be a step of SettingsFS with the same process,       *)
(* primitive, path, result and the same observed class of settings.json and  *)
(* assets_version on disk afterwards.  The invariants of SettingsFS (P) are  *)
(* evaluated by TLC in every state of the replayed behaviour.                *)
EXTENDS SettingsFS, Json, IOUtils
Traces == JsonDeserialize(IOEnv.TRACE_FILE)
VARIABLES tid, l
tvars == <<vars, tid, l>>

TInit == /\ tid \in 1..Len(Traces) /\ l = 1
         /\ InitFS
         /\ tmp = [p \in Procs |-> "absent"]
         /\ pc = [p \in Procs |-> "idle"]
         /\ op = [p \in Procs |-> Traces[tid].ops[p]]
         /\ rd = [p \in Procs |-> "none"]
         /\ loaded = [p \in Procs |-> "none"]
         /\ crashes = 0
         /\ last = [p |-> "-", op |-> "init", path |-> "-", res |-> "-"]

TStep == /\ l <= Len(Traces[tid].ev)
         /\ LET e == Traces[tid].ev[l] IN
              /\ Next
              /\ last' = [p |-> e.p, op |-> e.op, path |-> e.path, res |-> e.res]
              /\ cfg' = e.cfg /\ ver' = e.ver
         /\ l' = l + 1 /\ UNCHANGED tid

TSpec == TInit /\ [][TStep]_tvars
Progress == PrintT(<<"AT", Traces[tid].id, l>>)
==============================================================================

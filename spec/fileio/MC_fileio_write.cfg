SPECIFICATION Spec
CONSTANTS
  Which = "write"
  MaxLines = 3
  Emit = TRUE
INVARIANT MImpliesP
INVARIANT EmitCases
CHECK_DEADLOCK FALSE

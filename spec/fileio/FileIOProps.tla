------------------------------ MODULE FileIOProps ------------------------------
(* P for C07 (conventions, malformed files) and C06 (lossless round trips).      *)
(* A text file is a sequence of abstract lines                                    *)
(*   [k |-> "data", w |-> number of columns]      well-formed numeric row         *)
(*   [k |-> "comment"]  [k |-> "blank"]  [k |-> "trail", w] (trailing delimiter) *)
(*   [k |-> "nonnum", w, col] (one non-numeric field)                             *)
(* plus flags bom, crlf and the way it is handed over (path | handle).            *)
(* Every numeric field of data row r (counting data rows only), column c carries  *)
(* the token id 100 r + c; alpha reports for every loaded slot which token's      *)
(* value it holds (by exact float equality).                                      *)
EXTENDS Integers, Sequences, FiniteSets
Width(fmt) == CASE fmt = "tum" -> 8 [] fmt = "kitti" -> 12 [] fmt = "euroc" -> 8
DataRows(f) == SelectSeq(f.lines, LAMBDA l : l.k # "comment")
WellFormed(fmt, f) ==
  LET rows == DataRows(f) IN
  /\ Len(rows) >= 1
  /\ \A i \in DOMAIN rows : rows[i].k = "data"
  /\ IF fmt = "euroc" THEN \A i \in DOMAIN rows : rows[i].w >= 8 /\ rows[i].w = rows[1].w
     ELSE \A i \in DOMAIN rows : rows[i].w = Width(fmt)
Tok(r, c) == 100 * r + c
\* the published conventions as slot tables: canonical pose slots <<t, x, y, z, qw, qx, qy, qz>>  (columns are 0-based)
SlotsOfRow(fmt, r) ==
  CASE fmt = "tum" -> <<Tok(r, 0), Tok(r, 1), Tok(r, 2), Tok(r, 3), Tok(r, 7), Tok(r, 4), Tok(r, 5), Tok(r, 6)>>     \* t x y z qx qy qz qw
    [] fmt = "euroc" -> <<Tok(r, 0), Tok(r, 1), Tok(r, 2), Tok(r, 3), Tok(r, 4), Tok(r, 5), Tok(r, 6), Tok(r, 7)>>   \* t[ns] p q_w q_x q_y q_z
    [] fmt = "kitti" -> [i \in 1..12 |-> Tok(r, i - 1)]                                                               \* row-major 3x4
ReadVerdict(fmt, f, o) ==
  IF ~WellFormed(fmt, f) THEN (IF o.out = "FileInterfaceException" THEN "ok" ELSE IF o.out = "ok" THEN "MalformedFileAccepted" ELSE "WrongErrorType")
  ELSE IF f.bom /\ f.src = "handle" THEN (IF o.out \in {"ok", "FileInterfaceException"} THEN "ok" ELSE "WrongErrorType")   \* a BOM is promised for files (paths)
  ELSE IF o.out # "ok" THEN "WellFormedFileRejected"
  ELSE IF Len(o.rows) # Len(DataRows(f)) THEN "RowsDroppedOrAdded"
  ELSE IF \E r \in DOMAIN o.rows : o.rows[r] # SlotsOfRow(fmt, r) THEN "ValueInWrongSlot"
  ELSE IF fmt = "euroc" /\ ~o.ns_to_s THEN "NanosecondsNotConverted"
  \* the pose matrices of the loaded object carry the rotation of the file's quaternion (w, x, y, z), whatever its norm
  ELSE IF "rot_ok" \in DOMAIN o /\ ~o.rot_ok THEN "RotationNotOfTheQuaternion"
  ELSE "ok"

\* transformation files: c = [enc (npy|txt|json), cls]; accepted iff cls is a valid SE(3)/Sim(3)
ValidTransform(cls) == cls \in {"se3", "sim3", "sim3small", "sim3milli", "sim3kilo", "se3int"}
TransformVerdict(c, o) ==
  IF ValidTransform(c.cls) THEN (IF o.out # "ok" THEN "ValidTransformRejected" ELSE IF ~o.same THEN "TransformNotAsInFile" ELSE "ok")
  ELSE IF o.out = "FileInterfaceException" THEN "ok" ELSE IF o.out = "ok" THEN "InvalidTransformAccepted" ELSE "WrongErrorType"

\* files evo writes, read by the independent parser of the conventions: same rows, same slots
WriteVerdict(c, o) == IF o.out # "ok" THEN "WriteFailed"
                      ELSE IF o.nrows # c.n THEN "RowsDroppedOrAdded"
                      ELSE IF ~o.slots_ok THEN "ValueInWrongSlot" ELSE "ok"

\* C06 round trip: every slot (stamp, coordinate, quaternion component, matrix entry, error value, statistic) holds its own token again
RoundTripVerdict(c, o) == IF o.out # "ok" THEN "RoundTripFailed"
                          ELSE IF o.n # c.n THEN "CountOrOrderChanged"
                          ELSE IF o.lost > 0 THEN "ValueNotIdentical"
                          ELSE IF ~o.type_same THEN "TypeOrIndexChanged" ELSE "ok"
==============================================================================

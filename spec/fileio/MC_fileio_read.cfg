SPECIFICATION Spec
CONSTANTS
  Which = "read"
  MaxLines = 3
  Emit = TRUE
INVARIANT MImpliesP
INVARIANT EmitCases
CHECK_DEADLOCK FALSE

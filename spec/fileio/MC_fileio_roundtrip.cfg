SPECIFICATION Spec
CONSTANTS
  Which = "roundtrip"
  MaxLines = 3
  Emit = TRUE
INVARIANT MImpliesP
INVARIANT EmitCases
CHECK_DEADLOCK FALSE

SPECIFICATION Spec
CONSTANTS
  Which = "read"
  MaxLines = 4
  Emit = TRUE
INVARIANT MImpliesP
INVARIANT EmitCases
CHECK_DEADLOCK FALSE

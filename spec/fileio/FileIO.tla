--------------------------------- MODULE FileIO ---------------------------------
(* M / generator for C07 and C06: csv_read_matrix + the readers as a line machine *)
(* (skip 3 bytes for a BOM when given a path, drop lines starting with '#', split, *)
(* test the FIRST row's width, convert all fields - ragged or non-numeric rows     *)
(* fail in the conversion).  TLC enumerates all files of up to MaxLines abstract   *)
(* lines with the defect in every row / column position, checks M => P and prints  *)
(* the cases; plus transformation-file classes and round-trip shapes.              *)
EXTENDS FileIOProps, TLC, Json
CONSTANTS Which, MaxLines, Emit
VARIABLES c, o, pc
vars == <<c, o, pc>>
LineKinds(fmt) == LET w == Width(fmt) IN
  {[k |-> "data", w |-> w], [k |-> "comment"], [k |-> "blank"], [k |-> "trail", w |-> w],
   [k |-> "data", w |-> w - 1], [k |-> "data", w |-> w + 1]}
  \cup {[k |-> "nonnum", w |-> w, col |-> cc] : cc \in {0, 4, w - 1}}
  \cup (IF fmt = "euroc" THEN {[k |-> "data", w |-> 17], [k |-> "nonnum", w |-> 17, col |-> 12], [k |-> "trail", w |-> 17]} ELSE {})
Files(fmt) == UNION {[1..n -> LineKinds(fmt)] : n \in 0..MaxLines}
Defects(ls) == Cardinality({i \in DOMAIN ls : ~(ls[i].k \in {"comment"} \/ (ls[i].k = "data"))})

Init == /\ pc = "call" /\ o = [out |-> "none"]
        /\ CASE Which = "read" ->
                  \E fmt \in {"tum", "kitti", "euroc"}, src \in {"path", "handle"}, bom \in BOOLEAN, crlf \in BOOLEAN :
                  \E ls \in Files(fmt) :
                     /\ Defects(ls) <= 1
                     /\ c = [fam |-> "read", fmt |-> fmt, f |-> [lines |-> ls, bom |-> bom, crlf |-> crlf, src |-> src]]
             [] Which = "transform" ->
                  \E enc \in {"npy", "txt", "json"}, cls \in {"se3", "sim3", "sim3small", "sim3milli", "sim3kilo", "reflection", "shear", "shearmilli", "shearkilo", "aniso", "anisomilli",
                                                                "badrow", "zero", "shape3x3", "negscale", "zeroscale", "se3int"} :
                     /\ (enc = "json" => cls \in {"se3", "sim3", "sim3small", "sim3milli", "sim3kilo", "negscale", "zeroscale", "se3int"})
                     /\ (enc # "json" => cls \notin {"negscale", "zeroscale", "se3int"})
                     /\ c = [fam |-> "transform", enc |-> enc, cls |-> cls]
             [] Which = "write" -> \E fmt \in {"tum", "kitti"}, n \in 1..3, built \in {"se3", "pq"}, src \in {"path", "handle", "Path"} :
                     c = [fam |-> "write", fmt |-> fmt, n |-> n, built |-> built, src |-> src]
             [] Which = "roundtrip" ->
                  \E fmt \in {"tum", "kitti", "res", "res_traj", "df", "bag"}, n \in 1..3, built \in {"se3", "pq"}, src \in {"path", "handle"}, kind \in {"traj", "path"} :
                     /\ (fmt = "tum" \/ fmt = "bag" => kind = "traj") /\ (fmt = "kitti" => kind = "path")
                     /\ (fmt \in {"df", "bag"} => src = "path")
                     /\ c = [fam |-> "roundtrip", fmt |-> fmt, n |-> n, built |-> built, src |-> src, kind |-> kind]
\* the reader as the code does it
FirstWidthOK(fmt, rows) == IF fmt = "euroc" THEN Len(rows[1]) >= 8 ELSE Len(rows[1]) = Width(fmt)
Fields(l) == CASE l.k = "data" -> [i \in 1..l.w |-> "num"]
               [] l.k = "blank" -> <<>>
               [] l.k = "trail" -> [i \in 1..(l.w + 1) |-> IF i = l.w + 1 THEN "empty" ELSE "num"]
               [] l.k = "nonnum" -> [i \in 1..l.w |-> IF i = l.col + 1 THEN "text" ELSE "num"]
MRead(fmt, f) ==
  LET raw == [i \in DOMAIN DataRows(f) |-> Fields(DataRows(f)[i])] IN
  IF Len(raw) = 0 \/ ~FirstWidthOK(fmt, raw) THEN [out |-> "FileInterfaceException"]
  ELSE IF \E i \in DOMAIN raw : Len(raw[i]) # Len(raw[1]) \/ \E j \in DOMAIN raw[i] : raw[i][j] # "num" THEN [out |-> "FileInterfaceException"]   \* astype(float) fails
  ELSE [out |-> "ok", rows |-> [r \in DOMAIN raw |-> SlotsOfRow(fmt, r)], ns_to_s |-> TRUE]
Call == /\ pc = "call" /\ pc' = "done" /\ UNCHANGED c
        /\ o' = IF c.fam = "read" THEN MRead(c.fmt, c.f) ELSE [out |-> "n/a"]
Spec == Init /\ [][Call]_vars
MImpliesP == (pc = "done" /\ c.fam = "read" /\ ~(c.f.bom /\ c.f.src = "handle")) => ReadVerdict(c.fmt, c.f, o) = "ok"
EmitCases == (Emit /\ pc = "call") => PrintT(ToJson(c))
==============================================================================

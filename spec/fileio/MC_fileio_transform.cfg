SPECIFICATION Spec
CONSTANTS
  Which = "transform"
  MaxLines = 3
  Emit = TRUE
INVARIANT MImpliesP
INVARIANT EmitCases
CHECK_DEADLOCK FALSE

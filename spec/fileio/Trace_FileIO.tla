----------------------------- MODULE Trace_FileIO -----------------------------
EXTENDS FileIOProps, TLC, Json, IOUtils
Traces == JsonDeserialize(IOEnv.TRACE_FILE)
VARIABLES tid, verdict
Init == tid \in 1..Len(Traces) /\ verdict = "pending"
TV(t) == CASE t.c.fam = "read" -> ReadVerdict(t.c.fmt, t.c.f, t.o)
           [] t.c.fam = "transform" -> TransformVerdict(t.c, t.o)
           [] t.c.fam = "write" -> WriteVerdict(t.c, t.o)
           [] t.c.fam = "roundtrip" -> RoundTripVerdict(t.c, t.o)
Next == /\ verdict = "pending"
        /\ LET t == Traces[tid]  v == TV(t) IN
             /\ verdict' = v /\ (v # "ok" => PrintT(<<"REJECT", t.id, v>>))
        /\ UNCHANGED tid
Spec == Init /\ [][Next]_<<tid, verdict>>
==============================================================================

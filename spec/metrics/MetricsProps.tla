----------------------------- MODULE MetricsProps -----------------------------
(* P for C01 (APE), C02 (RPE) and C12 (statistics, units, companion arrays)    *)
(* on the exact domain: poses in O24 x Z^3.  Observed error values are         *)
(* alpha-mapped to integers:                                                    *)
(*   lengths and Frobenius norms through their SQUARES (integers),              *)
(*   angles in degrees (0, 90, 120, 180), also when reported in radians,        *)
(*   the percent ratio as a rational <<num, den>>.                              *)
EXTENDS ExactGeom, PairsProps

Relations == {"full", "trans", "rotpart", "rad", "deg", "pdist", "ratio"}
\* the definition applied to the relative pose E
DefOfE(rel, E) ==
  CASE rel = "trans" -> Norm2(E.p)                      \* squared Euclidean distance
    [] rel = "rotpart" -> FrobI2(E.r)                   \* || R - I ||_F^2
    [] rel = "full" -> FrobI2(E.r) + Norm2(E.p)         \* || E - I ||_F^2
    [] rel \in {"rad", "deg"} -> AngDeg(E.r)            \* geodesic angle, in degrees

\* ---- APE: one value per pose, in order; E = est^-1 ref; translation part / point distance = distance of the positions
APEDef(rel, ref, est) == IF rel \in {"trans", "pdist"} THEN Dist2(ref.p, est.p) ELSE DefOfE(rel, PRel(est, ref))
APEVerdict(c, o) ==
  IF Len(c.ref) # Len(c.est) THEN (IF o.out = "MetricsException" THEN "ok" ELSE "UnequalLengthsNotRefused")
  ELSE IF o.out # "ok" THEN "UnexpectedError"
  ELSE IF Len(o.err) # Len(c.ref) THEN "NotOneValuePerPose"
  ELSE IF \E k \in DOMAIN c.ref : o.err[k] # APEDef(c.rel, c.ref[k], c.est[k]) THEN "ValueNotTheDefinition"
  ELSE "ok"

\* ---- APE rotation angle on relative rotations about a coordinate axis by a symbolic angle
\* ([k |-> "deg"|"tiny"|"nearpi", n]: n degrees, n * 2^-40 rad, pi - n * 2^-40 rad - within 1e-12 of 0 and of pi)
APEAngVerdict(c, o) == IF o.out # "ok" THEN "UnexpectedError"
                       ELSE IF Len(o.ang) # Len(c.angs) THEN "NotOneValuePerPose"
                       ELSE IF \E k \in DOMAIN c.angs : o.ang[k] # c.angs[k] THEN "ValueNotTheDefinition" ELSE "ok"

\* ---- RPE over the pairs the selection produced (pairs recorded at the selector's return, 0-based)
RPEDef(rel, ref, est, i, j) ==
  LET Q == PRel(ref[i + 1], ref[j + 1])  P == PRel(est[i + 1], est[j + 1]) IN DefOfE(rel, PRel(Q, P))
\* straight-line distances |p_j - p_i| (integer on the lattice used for these relations)
SL(tr, i, j) == ISqrt(Dist2(tr[i + 1].p, tr[j + 1].p))
RPEVerdict(c, o) ==
  \* c = [rel, ref, est, q (selection request), fromref, drv (steps/relm of the driving trajectory)]
  IF Len(c.ref) # Len(c.est) THEN (IF o.out = "MetricsException" THEN "ok" ELSE "UnequalLengthsNotRefused")
  ELSE IF o.out = "FilterException" THEN (IF Ok(c.drv, c.q, <<>>) THEN "ok" ELSE "RefusedThoughPairsExist")
  ELSE IF o.out # "ok" THEN "UnexpectedError"
  ELSE IF o.driver \notin {IF c.fromref THEN "ref" ELSE "est", "both"} THEN "PairsFromWrongTrajectory"      \* "both": the two trajectories hold the same poses
  ELSE IF ~InRange(c.drv, o.pairs) \/ ~Ok(c.drv, c.q, o.pairs) THEN "WrongPairs"
  ELSE LET keep == IF c.rel = "ratio" THEN SelectSeq(o.pairs, LAMBDA pr : SL(c.ref, pr[1], pr[2]) # 0) ELSE o.pairs IN
       IF Len(o.err) # Len(keep) THEN "NotOneValuePerPair"
       ELSE IF o.ids # [k \in DOMAIN keep |-> keep[k][2]] THEN "EndIndicesDoNotMatchValues"
       ELSE IF \E k \in DOMAIN keep :
                 LET i == keep[k][1]  j == keep[k][2] IN
                 CASE c.rel = "pdist" -> o.err[k] # Abs(SL(c.ref, i, j) - SL(c.est, i, j))
                   [] c.rel = "ratio" -> ~RatEq(o.err[k], <<100 * Abs(SL(c.ref, i, j) - SL(c.est, i, j)), SL(c.ref, i, j)>>)
                   [] OTHER -> o.err[k] # RPEDef(c.rel, c.ref, c.est, i, j)
            THEN "ValueNotTheDefinition"
       ELSE "ok"

\* ---- companion arrays, stored trajectories, title/label of the result of ape() / rpe() (C12)
\* c = [metric, stamps (of the processed estimate), estpath (cumulative path of the processed estimate, integers), refpath]
\* o = [out, nerr, ts, sfs, dist, dfs, ids (rpe: end poses, 0-based), st_est, st_ref (stamps of the stored trajectories), title_ok, label_ok]
CompanionVerdict(c, o) ==
  \* refusals are judged by C01/C02 - except that a legal unit change (all generated ones are: m -> mm/cm/km, deg <-> rad) is no reason to refuse
  IF o.out # "ok" THEN (IF c.change # "none" /\ o.out = "MetricsException" THEN "LegalUnitChangeRefused" ELSE "ok")
  ELSE IF ~(Len(o.ts) = o.nerr /\ Len(o.sfs) = o.nerr /\ Len(o.dist) = o.nerr /\ Len(o.dfs) = o.nerr) THEN "NotOneEntryPerValue"
  ELSE IF c.metric = "ape" THEN
       (IF o.nerr # Len(c.stamps) THEN "NotOneEntryPerValue"
        ELSE IF o.ts # c.stamps THEN "TimestampsNotOfThatPose"
        ELSE IF o.sfs # [k \in DOMAIN c.stamps |-> c.stamps[k] - c.stamps[1]] THEN "SecondsNotOfThatPose"
        ELSE IF o.dist # c.estpath \/ o.dfs # c.refpath THEN "DistancesNotOfThatPose"
        ELSE IF o.st_est # c.stamps \/ o.st_ref # c.stamps THEN "StoredTrajectoriesNotTheProcessedOnes"
        ELSE IF ~o.title_ok \/ ~o.label_ok THEN "TitleOrLabelWrong" ELSE "ok")
  ELSE (IF Len(o.ids) # o.nerr THEN "NotOneEntryPerValue"
        \* the entries belong to the END poses of the pairs the values were computed on (pairs recorded at the selector's return;
        \* for the ratio relation pairs with zero reference distance carry no value)
        ELSE IF o.ids # LET keep == IF c.rel = "ratio" THEN SelectSeq(o.pairs, LAMBDA pr : Dist2(c.ref[pr[1] + 1].p, c.ref[pr[2] + 1].p) # 0) ELSE o.pairs
                        IN [k \in DOMAIN keep |-> keep[k][2]] THEN "EntriesNotOfPairEndPose"
        ELSE IF o.ts # [k \in DOMAIN o.ids |-> c.stamps[o.ids[k] + 1]] THEN "TimestampsNotOfPairEndPose"
        ELSE IF o.sfs # [k \in DOMAIN o.ids |-> c.stamps[o.ids[k] + 1] - c.stamps[1]] THEN "SecondsNotOfPairEndPose"
        ELSE IF o.st_est # <<c.stamps[1]>> \o [k \in DOMAIN o.ids |-> c.stamps[o.ids[k] + 1]] \/ o.st_ref # o.st_est
             THEN "StoredTrajectoriesNotFirstPlusEndPoses"
        ELSE IF ~o.title_ok \/ ~o.label_ok THEN "TitleOrLabelWrong" ELSE "ok")

\* ---- statistics of an integer error array e (C12); observations as rationals <<num, den>>
SumE(e) == SumSeq(e)
SumE2(e) == SumSeq([k \in DOMAIN e |-> e[k] * e[k]])
Sorted(e) == LET n == Len(e)
                 Rank(k) == Cardinality({j \in 1..n : e[j] < e[k] \/ (e[j] = e[k] /\ j < k)}) + 1
             IN [r \in 1..n |-> e[CHOOSE k \in 1..n : Rank(k) = r]]
Median2(e) == LET s == Sorted(e)  n == Len(e) IN IF n % 2 = 1 THEN 2 * s[(n + 1) \div 2] ELSE s[n \div 2] + s[n \div 2 + 1]   \* 2 * median
MinE(e) == CHOOSE x \in SeqRange(e) : \A y \in SeqRange(e) : x <= y
MaxE(e) == CHOOSE x \in SeqRange(e) : \A y \in SeqRange(e) : x >= y
\* o.shifted: the executed array was e + K for a large dyadic K (values with a tiny relative spread); the harness has
\* subtracted K from mean/median/min/max again (exact in float64), sse and rmse are not judged for those
StatsVerdict(e, o) ==
  LET n == Len(e) IN
  IF ~o.shifted /\ ~RatEq(o.sse, <<SumE2(e), 1>>) THEN "sse"
  ELSE IF ~o.shifted /\ ~RatEq(o.rmse2, <<SumE2(e), n>>) THEN "rmse"
  ELSE IF ~RatEq(o.mean, <<SumE(e), n>>) THEN "mean"
  ELSE IF ~RatEq(o.median, <<Median2(e), 2>>) THEN "median"
  ELSE IF ~RatEq(o.std2, <<n * SumE2(e) - SumE(e) * SumE(e), n * n>>) THEN "std"
  ELSE IF ~RatEq(o.min, <<MinE(e), 1>>) \/ ~RatEq(o.max, <<MaxE(e), 1>>) THEN "minmax"
  ELSE "ok"
\* the definitions satisfy the stated inequalities (theorem about the oracle, checked by TLC on all arrays in the bound)
StatsLaws(e) ==
  LET n == Len(e) IN
  /\ 2 * MinE(e) <= Median2(e) /\ Median2(e) <= 2 * MaxE(e)
  /\ n * MinE(e) <= SumE(e) /\ SumE(e) * SumE(e) <= n * SumE2(e) /\ SumE2(e) <= n * MaxE(e) * MaxE(e)

\* ---- units (C12): conversion factor between units as 10^k * (180/pi)^p ; refused otherwise
Lengths == {"mm", "cm", "m", "km"}
Exp10(u) == CASE u = "mm" -> -3 [] u = "cm" -> -2 [] u = "m" -> 0 [] u = "km" -> 3
UnitVerdict(c, o) ==       \* c = [from, to]; o = [out, unit, k10, pi, stats_follow]  (values multiplied by 10^k10 * (180/pi)^pi)
  \* statistics taken before AND after the conversion: afterwards they are the statistics of the converted values
  IF ~o.stats_follow THEN "StatisticsNotOfTheConvertedValues"
  ELSE IF "zout" \in DOMAIN o /\ (o.zout # o.out \/ o.zunit # o.unit) THEN "AllZeroValuesTreatedDifferently"
  ELSE IF c.from = c.to THEN (IF o.out = "ok" /\ o.unit = c.to /\ o.k10 = 0 /\ o.pi = 0 THEN "ok" ELSE "SameUnitNotANoOp")
  ELSE IF c.from \in Lengths /\ c.to \in Lengths THEN
         (IF o.out = "ok" /\ o.unit = c.to /\ o.k10 = Exp10(c.from) - Exp10(c.to) /\ o.pi = 0 THEN "ok" ELSE "WrongLengthConversion")
  ELSE IF c.from = "rad" /\ c.to = "deg" THEN (IF o.out = "ok" /\ o.unit = "deg" /\ o.k10 = 0 /\ o.pi = 1 THEN "ok" ELSE "WrongAngleConversion")
  ELSE IF c.from = "deg" /\ c.to = "rad" THEN (IF o.out = "ok" /\ o.unit = "rad" /\ o.k10 = 0 /\ o.pi = -1 THEN "ok" ELSE "WrongAngleConversion")
  ELSE IF o.out = "MetricsException" /\ o.unit = c.from /\ o.k10 = 0 /\ o.pi = 0 THEN "ok" ELSE "ForbiddenConversionNotRefused"
==============================================================================

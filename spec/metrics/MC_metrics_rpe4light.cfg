SPECIFICATION Spec
CONSTANTS
  Which = "rpe"
  Rots <- QuickRots
  Emit = TRUE
  RpeN = {4}
  Light = TRUE
INVARIANT MImpliesP
INVARIANT Corollaries
INVARIANT StatsTheorem
INVARIANT EmitCases
CHECK_DEADLOCK FALSE

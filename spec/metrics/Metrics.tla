-------------------------------- MODULE Metrics --------------------------------
(* Generator / M for C01, C02, C12: evo.core.metrics as the code computes it   *)
(* (one list-comprehension step per pose or pair, E = est^-1 ref, the RPE pair  *)
(* dispatcher of Pairs.tla on the estimate or - pairs_from_reference - the      *)
(* reference).  TLC enumerates the cases of each family (Which), checks M => P  *)
(* and the model-level corollaries (zero iff equal, invariance under a common  *)
(* rigid motion, symmetry) and prints the cases.                                *)
EXTENDS MetricsProps, TLC, Json
CONSTANTS Which, Rots, Emit, RpeN, Light
VARIABLES c, o, pc
vars == <<c, o, pc>>
Trs == {<<0, 0, 0>>, <<3, 4, 0>>, <<1, 2, 2>>, <<-2, 3, 6>>, <<0, 0, 5>>}
PosesA == {Pose(r, p) : r \in Rots, p \in {<<0, 0, 0>>, <<3, 4, 0>>}}
PosesB == {Pose(r, p) : r \in O24, p \in Trs}
APERels == {"full", "trans", "rotpart", "rad", "deg", "pdist"}
Seqs(S, n) == [1..n -> S]

\* lattice trajectories for RPE: axis-aligned integer steps, attitudes from a small set
StepsV == {<<1, 0, 0>>, <<0, 2, 0>>, <<0, 0, 0>>}
StepsP == {<<3, 0, 0>>, <<0, 4, 0>>, <<0, 0, 0>>}        \* Pythagorean: non-collinear pairs of steps still have an integer straight-line distance (5)
RotSteps == {1, 7}
MkTraj(steps, rots) == LET F[k \in 1..(Len(steps) + 1)] == IF k = 1 THEN Pose(1, <<0, 0, 0>>)
                                                            ELSE Pose(RMul(F[k - 1].r, rots[k - 1]), VAdd(F[k - 1].p, steps[k - 1])) IN
                       [k \in 1..(Len(steps) + 1) |-> F[k]]
Drv(tr) == [steps |-> [k \in 1..(Len(tr) - 1) |-> ISqrt(Dist2(tr[k].p, tr[k + 1].p))],
            relm |-> [i \in 1..Len(tr) |-> [j \in 1..Len(tr) |-> AngDeg(RRel(tr[i].r, tr[j].r))]]]

Init == /\ pc = "call" /\ o = [out |-> "none"]
        /\ CASE Which = "ape1" -> \E rel \in APERels, a \in PosesA, b \in PosesB :
                                     c = [fam |-> "ape", rel |-> rel, ref |-> <<a>>, est |-> <<b>>]
             [] Which = "apeN" -> \E rel \in APERels, n \in 0..3, m \in 1..3 :
                                     \E rf \in Seqs({Pose(1, <<0, 0, 0>>), Pose(7, <<1, 2, 2>>)}, n), es \in Seqs({Pose(12, <<3, 4, 0>>), Pose(1, <<0, 0, 0>>)}, m) :
                                        c = [fam |-> "ape", rel |-> rel, ref |-> rf, est |-> es]
             [] Which = "rpe" -> \E n \in RpeN : \E s1 \in Seqs(IF Light THEN StepsP ELSE StepsV \cup StepsP, n - 1),
                                       s2 \in Seqs(IF Light THEN {<<1, 0, 0>>, <<0, 4, 0>>} ELSE {<<1, 0, 0>>, <<0, 4, 0>>, <<3, 0, 0>>}, n - 1),
                                       r1 \in Seqs(IF Light THEN {1} ELSE RotSteps, n - 1),
                                       rel \in (IF Light THEN {"trans", "ratio"} ELSE Relations), fr \in BOOLEAN, all \in BOOLEAN,
                                       q \in (IF Light THEN {<<"meters", 3>>, <<"meters", 4>>} ELSE {<<"frames", 1>>, <<"frames", 2>>, <<"meters", 2>>, <<"degrees", 90>>}) :
                                    LET ref == MkTraj(s1, r1)  est == MkTraj(s2, [k \in 1..(n - 1) |-> IF k = 1 THEN 12 ELSE 1]) IN
                                    \* the point-distance relations compare straight-line distances: keep them on the integer lattice
                                    /\ (~Light /\ rel \notin {"pdist", "ratio"} => \A k \in 1..(n - 1) : s1[k] \in StepsV /\ s2[k] # <<3, 0, 0>>)
                                    /\ (rel \in {"pdist", "ratio"} => \A i, j \in 1..n : ISqrt(Dist2(ref[i].p, ref[j].p)) >= 0 /\ ISqrt(Dist2(est[i].p, est[j].p)) >= 0)
                                    /\ c = [fam |-> "rpe", rel |-> rel, ref |-> ref, est |-> est, fromref |-> fr,
                                         q |-> [unit |-> q[1], d |-> q[2], all |-> all, tn |-> IF all THEN 1 ELSE 0, td |-> IF all THEN 2 ELSE 1],
                                         drv |-> Drv(IF fr THEN ref ELSE est)]
             [] Which = "stats" -> \E n \in 1..5 : \E e \in Seqs(0..3, n) : c = [fam |-> "stats", e |-> e]
             [] Which = "units" -> \E f \in {"mm", "cm", "m", "km", "deg", "rad", "none", "frames", "percent", "s"}, t \in {"mm", "cm", "m", "km", "deg", "rad", "none", "frames", "percent", "s"} :
                                      c = [fam |-> "units", from |-> f, to |-> t]
Call == /\ pc = "call" /\ pc' = "done" /\ UNCHANGED c
        /\ o' = CASE c.fam = "ape" ->
                       IF Len(c.ref) # Len(c.est) THEN [out |-> "MetricsException"]
                       ELSE [out |-> "ok", err |-> [k \in DOMAIN c.ref |-> IF c.rel \in {"trans", "pdist"} THEN Norm2(VSub(c.est[k].p, c.ref[k].p))
                                                                              ELSE DefOfE(c.rel, PMul(PInv(c.est[k]), c.ref[k]))]]
                  [] OTHER -> [out |-> "n/a"]
Spec == Init /\ [][Call]_vars
MImpliesP == (pc = "done" /\ c.fam = "ape") => APEVerdict(c, o) = "ok"
\* corollaries of the definition on the model (C01): zero iff equal, same rigid motion on both, swap
Corollaries == (pc = "call" /\ c.fam = "ape" /\ Len(c.ref) = 1 /\ Len(c.est) = 1) =>
   LET a == c.ref[1]  b == c.est[1] IN
   /\ (APEDef("full", a, b) = 0 <=> a = b)
   /\ \A g \in {Pose(r, <<1, -1, 2>>) : r \in {2, 9, 17, 24}} : APEDef(c.rel, PMul(g, a), PMul(g, b)) = APEDef(c.rel, a, b)
   /\ APEDef(c.rel, a, b) = APEDef(c.rel, b, a)
StatsTheorem == (c.fam = "stats") => StatsLaws(c.e)
EmitCases == (Emit /\ pc = "call") => PrintT(ToJson(c))
QuickRots == {1, 2, 7, 12, 18, 23}
==============================================================================

----------------------------- MODULE Trace_Metrics -----------------------------
EXTENDS MetricsProps, TLC, Json, IOUtils
Traces == JsonDeserialize(IOEnv.TRACE_FILE)
VARIABLES tid, verdict
Init == tid \in 1..Len(Traces) /\ verdict = "pending"
TV(t) == CASE t.c.fam = "ape" -> APEVerdict(t.c, t.o)
           [] t.c.fam = "apeaa" -> APEAngVerdict(t.c, t.o)
           [] t.c.fam = "rpe" -> RPEVerdict(t.c, t.o)
           [] t.c.fam = "comp" -> CompanionVerdict(t.c, t.o)
           [] t.c.fam = "stats" -> StatsVerdict(t.c.e, t.o)
           [] t.c.fam = "units" -> UnitVerdict(t.c, t.o)
Next == /\ verdict = "pending"
        /\ LET t == Traces[tid]  v == TV(t) IN
             /\ verdict' = v /\ (v # "ok" => PrintT(<<"REJECT", t.id, v>>))
        /\ UNCHANGED tid
Spec == Init /\ [][Next]_<<tid, verdict>>
==============================================================================

SPECIFICATION Spec
CONSTANTS
  Which = "rpe"
  Rots <- QuickRots
  Emit = TRUE
  RpeN = {3, 4}
INVARIANT MImpliesP
INVARIANT Corollaries
INVARIANT StatsTheorem
INVARIANT EmitCases
CHECK_DEADLOCK FALSE

SPECIFICATION Spec
CONSTANTS
  Which = "apeN"
  Rots <- QuickRots
  Emit = TRUE
  RpeN = {3}
  Light = FALSE
INVARIANT MImpliesP
INVARIANT Corollaries
INVARIANT StatsTheorem
INVARIANT EmitCases
CHECK_DEADLOCK FALSE

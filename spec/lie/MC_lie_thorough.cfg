SPECIFICATION Spec
CONSTANTS
  Rots <- O24
  Degs <- AllDegs
  Emit = TRUE
INVARIANT EmitCases
CHECK_DEADLOCK FALSE

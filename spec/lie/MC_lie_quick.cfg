SPECIFICATION Spec
CONSTANTS
  Rots <- QuickRots
  Degs <- QuickDegs
  Emit = TRUE
INVARIANT EmitCases
CHECK_DEADLOCK FALSE

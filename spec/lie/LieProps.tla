------------------------------- MODULE LieProps -------------------------------
(* P for C09: what evo.core.lie_algebra must return, stated with the exact     *)
(* group tables of ExactGeom.  Angles about a coordinate axis are symbolic:    *)
(*   [k |-> "deg", n |-> d]      d degrees, d in 0..180                        *)
(*   [k |-> "tiny", n |-> h]     h * 2^-40 rad   (within 1e-12 of 0)           *)
(*   [k |-> "nearpi", n |-> h]   pi - h * 2^-40  (within 1e-12 of pi)          *)
(* and a rotation vector is [ax |-> 1..3, sg |-> 1|-1, ang |-> angle].         *)
EXTENDS ExactGeom

\* ---- theorems about the model itself (evaluated by TLC at start-up): the angle is a bi-invariant metric on O24
ASSUME \A a, b \in O24 : Ang30(RRel(a, b)) = Ang30(RRel(b, a)) /\ (Ang30(RRel(a, b)) = 0 <=> a = b)
ASSUME \A a, b, c \in O24 : Ang30(RRel(a, c)) <= Ang30(RRel(a, b)) + Ang30(RRel(b, c))
ASSUME \A a, b, g \in O24 : Ang30(RRel(RMul(g, a), RMul(g, b))) = Ang30(RRel(a, b))
                          /\ Ang30(RRel(RMul(a, g), RMul(b, g))) = Ang30(RRel(a, b))
ASSUME \A a \in O24 : Ang30(a) \in {0, 3, 4, 6}

IsZero(ang) == ang.k = "deg" /\ ang.n = 0
IsPi(ang) == (ang.k = "deg" /\ ang.n = 180) \/ (ang.k = "nearpi" /\ ang.n = 0)

Verdict(c, o) ==
  CASE c.fn = "exp_log" ->        \* log(exp(v)) = v, exp(v) is the rotation about the axis by the angle
         IF ~o.expok THEN "ExpWrong"
         ELSE IF IsZero(c.v.ang) THEN (IF o.zero THEN "ok" ELSE "LogOfIdentityNotZero")
         ELSE IF o.v.ax # c.v.ax \/ o.v.ang # c.v.ang THEN "LogExpNotInverse"
         ELSE IF o.v.sg # c.v.sg /\ ~IsPi(c.v.ang) THEN "LogExpNotInverse"
         ELSE IF o.angle # c.v.ang THEN "AngleWrong"
         ELSE "ok"
    [] c.fn = "log_exp" ->        \* exp(log(R)) = R on O24, angle = the group's angle
         IF o.r # c.r THEN "ExpLogNotInverse"
         ELSE IF o.deg # AngDeg(c.r) THEN "AngleWrong"
         ELSE IF ~o.skewok THEN "SkewLogWrong" ELSE "ok"
    [] c.fn = "hat_vee" -> IF o.v = c.v /\ o.skew THEN "ok" ELSE "HatVeeNotInverse"
    [] c.fn = "se3_inv" -> IF o.inv = PInv(c.A) /\ o.isid THEN "ok" ELSE "InverseWrong"
    [] c.fn = "rel" -> IF o.rel # PRel(c.A, c.B) THEN "RelativePoseWrong"
                       ELSE IF o.relso3 # RRel(c.A.r, c.B.r) THEN "RelativeRotationWrong"
                       ELSE IF o.self # PId THEN "RelOfSelfNotIdentity" ELSE "ok"
    [] c.fn = "sim3_inv" -> IF ~o.isid THEN "Sim3InverseWrong"
                            ELSE IF ~RatEq(o.scale, c.s) THEN "ScaleNotRecovered"
                            ELSE IF ~RatEq(o.invscale, <<c.s[2], c.s[1]>>) THEN "InverseScaleWrong" ELSE "ok"
    [] c.fn = "angle" -> IF o.deg # AngDeg(RRel(c.a, c.b)) \/ o.rad # AngDeg(RRel(c.a, c.b)) THEN "AngleWrong"
                         ELSE IF o.degba # o.deg THEN "AngleNotSymmetric" ELSE "ok"
    [] c.fn = "member" ->
         LET proper == c.r \in O24 IN
         IF c.what \in {"plain", "f32"} THEN      \* f32: a generic rotation times c.r, stored with single precision (orthonormal to 1e-7 only): still a group element
            (IF o.so3 = proper /\ o.se3 = proper /\ o.sim3 = proper THEN "ok" ELSE "MembershipWrong")
         ELSE IF c.what = "scaled" THEN          \* 2 R: not SO(3)/SE(3); Sim(3) iff R proper
            (IF ~o.so3 /\ ~o.se3 /\ o.sim3 = proper THEN "ok" ELSE "MembershipWrong")
         \* sheared block (also at a small scale, where an absolute tolerance would hide it) / wrong bottom row (also by 1e-9)
         ELSE (IF ~o.so3 /\ ~o.se3 /\ ~o.sim3 THEN "ok" ELSE "MembershipWrong")
==============================================================================

---------------------------------- MODULE Lie ----------------------------------
(* Generator for C09: every call TLC enumerates (the model of each helper is   *)
(* the exact group operation of ExactGeom, so M = P here; the group laws are   *)
(* ASSUMEd theorems of LieProps).                                              *)
EXTENDS LieProps, TLC, Json
CONSTANTS Degs, Rots, Emit
VARIABLES c
Angles == {[k |-> "deg", n |-> d] : d \in Degs} \cup {[k |-> "tiny", n |-> h] : h \in {1, 3, 1024}}
          \cup {[k |-> "nearpi", n |-> h] : h \in {0, 1, 3, 1024}}
Vecs == {<<0, 0, 0>>, <<1, -2, 3>>, <<-3, 0, 2>>}
Poses == {Pose(r, p) : r \in Rots, p \in Vecs}
Init == c \in {[fn |-> "exp_log", v |-> [ax |-> a, sg |-> s, ang |-> g]] : a \in 1..3, s \in {1, -1}, g \in Angles}
           \cup {[fn |-> "log_exp", r |-> r] : r \in O24}
           \cup {[fn |-> "hat_vee", v |-> v] : v \in Vecs \cup {<<5, 7, -11>>}}
           \cup {[fn |-> "se3_inv", A |-> A] : A \in Poses}
           \cup {[fn |-> "rel", A |-> A, B |-> B] : A \in Poses, B \in {Pose(r, <<2, 1, -1>>) : r \in Rots}}
           \* nearly equal poses far from the origin (UTM-like coordinates, 1 m apart)
           \cup {[fn |-> "rel", A |-> Pose(r, <<1000000, -2000000, 3000000>>), B |-> Pose(r, <<1000001, -2000000, 3000002>>)] : r \in Rots}
           \cup {[fn |-> "rel", A |-> Pose(r, <<1000000, -2000000, 3000000>>), B |-> Pose(RMul(r, 7), <<1000000, -2000000, 3000000>>)] : r \in Rots}
           \cup {[fn |-> "sim3_inv", A |-> A, s |-> s] : A \in Poses, s \in {<<1, 4>>, <<1, 2>>, <<1, 1>>, <<2, 1>>, <<4, 1>>, <<1024, 1>>}}
           \cup {[fn |-> "angle", a |-> a, b |-> b] : a \in O24, b \in Rots}
           \cup {[fn |-> "member", r |-> r, what |-> w] : r \in O48, w \in {"plain", "f32", "scaled", "shear", "badrow", "smallshear", "tinyrow"}}
           \* Sim(3) matrices stored with an integer dtype (hand-written axis-aligned matrices, as the pinned tests do for SE(3))
           \cup {[fn |-> "sim3_inv", A |-> A, s |-> s, intdtype |-> TRUE] : A \in {Pose(r, <<1, -2, 3>>) : r \in Rots}, s \in {<<2, 1>>, <<4, 1>>}}
Next == UNCHANGED c
Spec == Init /\ [][Next]_c
EmitCases == Emit => PrintT(ToJson(c))
QuickRots == {1, 2, 7, 12, 18, 23}
QuickDegs == {0, 1, 30, 45, 89, 90, 91, 120, 135, 179, 180}
AllDegs == 0..180
==============================================================================

SPECIFICATION Spec
CONSTANTS
  Rots <- O24
  Emit = TRUE
  Bug = "none"
INVARIANT MImpliesP
INVARIANT EmitCases
CHECK_DEADLOCK FALSE

SPECIFICATION Spec
CONSTANTS
  Rots <- QuickRots
  Emit = FALSE
  Bug = "n_ignored"
INVARIANT MImpliesP
INVARIANT EmitCases
CHECK_DEADLOCK FALSE

------------------------------ MODULE Trace_Align ------------------------------
EXTENDS AlignProps, TLC, Json, IOUtils
Traces == JsonDeserialize(IOEnv.TRACE_FILE)
VARIABLES tid, verdict
Init == tid \in 1..Len(Traces) /\ verdict = "pending"
TV(t) == CASE t.what = "align" -> Verdict(t.c, t.o)
          [] t.what = "result" -> ResultVerdict(t.c, t.o)
          [] t.what = "opt" -> OptVerdict(t.c, t.o)
          [] t.what = "nearunit" -> NearUnitVerdict(t.c, t.o)
Next == /\ verdict = "pending"
        /\ LET t == Traces[tid]  v == TV(t) IN
             /\ verdict' = v /\ (v # "ok" => PrintT(<<"REJECT", t.id, v>>))
        /\ UNCHANGED tid
Spec == Init /\ [][Next]_<<tid, verdict>>
==============================================================================

-------------------------------- MODULE Align --------------------------------
(* M for C04: PosePath3D.align / align_origin as the code does it on the      *)
(* noise-free family: Umeyama on the first n position pairs returns the exact *)
(* inverse of the generating similarity of those pairs; then                  *)
(*   rigid: transform(se3(r,t));  sim: scale(s) then transform(se3(r,t));     *)
(*   scale: scale(s);  origin: transform(ref_0 * est_0^-1).                   *)
(* TLC enumerates generating similarities (all 24 rotations x translations x  *)
(* scales 1,2,4), a second similarity for the poses after n, modes and n,     *)
(* checks M => P (AlignProps) and prints the cases.                           *)
EXTENDS AlignProps, TLC, Json
CONSTANTS Rots, Emit, Bug
VARIABLES c, o, pc
vars == <<c, o, pc>>

RefPoses == <<Pose(1, <<0, 0, 0>>), Pose(7, <<1, 0, 0>>), Pose(12, <<1, 2, 0>>), Pose(18, <<1, 2, 3>>),
              Pose(5, <<-1, 2, 4>>), Pose(22, <<0, -2, 1>>)>>
SimPose(g, t, s, P) == Pose(RMul(g, P.r), VAdd(VScale(s, Act(g, P.p)), t))
\* estimate: similarity (g1,t1,s1) on the first `used` poses, (g2,t2,s1) on the rest
Est(g1, t1, s1, g2, t2, used) == [k \in 1..Len(RefPoses) |-> IF k <= used THEN SimPose(g1, t1, s1, RefPoses[k]) ELSE SimPose(g2, t2, s1, RefPoses[k])]

Init == /\ pc = "call" /\ o = [out |-> "none"]
        /\ \E g1 \in Rots \cup {RID}, g2 \in {3, 17}, t1 \in {<<0, 0, 0>>, <<4, -8, 12>>}, s1 \in {1, 2, 4}, mode \in {"rigid", "sim", "scale", "origin"},
              n \in {-1, 3, 4}, far \in BOOLEAN, swap \in BOOLEAN :      \* far: the harness places both trajectories at coordinates around 2^20
              \* swap (origin mode only): the roles are exchanged - the ESTIMATE starts at the identity pose, the reference does not
              /\ (swap => mode = "origin" /\ n = -1 /\ ~far)
              /\ (mode = "rigid" => s1 = 1)
              /\ (far => g1 = RID /\ s1 = 1 /\ n = -1 /\ mode \in {"rigid", "sim"} /\ t1 # <<0, 0, 0>>)
              /\ c = [mode |-> mode, n |-> n, s0 |-> s1,
                      used |-> IF n = -1 \/ mode = "origin" THEN Len(RefPoses) ELSE n,
                      ref |-> IF swap THEN Est(g1, t1, s1, g2, <<-4, 0, 8>>, Len(RefPoses)) ELSE RefPoses,
                      est |-> IF swap THEN RefPoses
                              ELSE Est(g1, t1, s1, g2, <<-4, 0, 8>>, IF n = -1 \/ mode = "origin" THEN Len(RefPoses) ELSE n),
                      g1 |-> g1, t1 |-> t1, far |-> far]

\* inverse of (g, t, s):  p -> (1/s) g^-1 (p - t);  translation in 1/64 units
InvRet(g, t, s) == [r |-> RInv(g), s |-> <<1, s>>, t |-> LET q == Act(RInv(g), t) IN <<-(TU * q[1]) \div s, -(TU * q[2]) \div s, -(TU * q[3]) \div s>>]
IdRet == [r |-> RID, t |-> <<0, 0, 0>>, s |-> <<1, 1>>]
ApplyRet(ret, P) == Pose(RMul(ret.r, P.r), LET m == Moved64(ret, P.p) IN <<m[1] \div TU, m[2] \div TU, m[3] \div TU>>)

Call == /\ pc = "call" /\ pc' = "done" /\ UNCHANGED c
        /\ o' = IF c.mode = "origin"
                THEN LET T0 == PMul(c.ref[1], PInv(c.est[1]))
                         aft == [k \in DOMAIN c.est |-> PMul(T0, c.est[k])]
                     IN [out |-> "ok", refsame |-> TRUE, ret |-> IdRet, after |-> aft, ret2 |-> IdRet, after2 |-> aft]
                ELSE LET ret == InvRet(c.g1, c.t1, IF Bug = "n_ignored" /\ c.n # -1 THEN c.s0 + 1 ELSE c.s0)
                         aft == IF c.mode = "scale"
                                THEN [k \in DOMAIN c.est |-> Pose(c.est[k].r, <<c.est[k].p[1] \div c.s0, c.est[k].p[2] \div c.s0, c.est[k].p[3] \div c.s0>>)]
                                ELSE [k \in DOMAIN c.est |-> ApplyRet(ret, c.est[k])]
                     IN [out |-> "ok", refsame |-> TRUE, ret |-> ret, after |-> aft,
                         ret2 |-> IdRet, after2 |-> aft]
Spec == Init /\ [][Call]_vars
ScaleDivides == c.mode = "scale" => \A k \in DOMAIN c.est : \A i \in 1..3 : c.est[k].p[i] % c.s0 = 0
MImpliesP == (pc = "done" /\ ScaleDivides) => Verdict(c, o) = "ok"
EmitCases == (Emit /\ pc = "done" /\ ScaleDivides) => PrintT(ToJson([c |-> c, m |-> o]))
QuickRots == {1, 2, 7, 12, 18, 23}
==============================================================================

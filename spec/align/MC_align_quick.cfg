SPECIFICATION Spec
CONSTANTS
  Rots <- QuickRots
  Emit = TRUE
  Bug = "none"
INVARIANT MImpliesP
INVARIANT EmitCases
CHECK_DEADLOCK FALSE

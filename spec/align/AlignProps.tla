------------------------------ MODULE AlignProps ------------------------------
(* P for C04 on the exact domain: reference poses ref[k] = [r, p] in O24 x Z^3, *)
(* estimate poses before / after alignment, the returned parameters           *)
(* ret = [r : O24 index or -1, t : <<x,y,z>> in 1/64 lattice units, s : <<num, den>>]. *)
(* The returned translation is compared in 1/64 units so that scale 1/2 and   *)
(* 1/4 keep it integral.                                                       *)
EXTENDS LeastSquares
TU == 64       \* sub-units of the returned translation

\* position p moved by the returned similarity, in 1/64 units:  s R p + t
Moved64(ret, p) == LET q == Act(ret.r, p) IN
  <<(TU * ret.s[1] * q[1]) \div ret.s[2] + ret.t[1],
    (TU * ret.s[1] * q[2]) \div ret.s[2] + ret.t[2],
    (TU * ret.s[1] * q[3]) \div ret.s[2] + ret.t[3]>>
Exact64(ret, p) == LET q == Act(ret.r, p) IN \A c \in 1..3 : (TU * ret.s[1] * q[c]) % ret.s[2] = 0
P64(p) == <<TU * p[1], TU * p[2], TU * p[3]>>

MovedByReturned(before, after, ret, mode) ==
  /\ Len(before) = Len(after)
  /\ \A k \in DOMAIN before :
       IF mode = "scale"        \* positions * s, nothing else
       THEN /\ after[k].r = before[k].r
            /\ \A c \in 1..3 : ret.s[2] * after[k].p[c] = ret.s[1] * before[k].p[c]
       ELSE /\ ret.r \in O24 /\ Exact64(ret, before[k].p)
            /\ P64(after[k].p) = Moved64(ret, before[k].p)
            /\ after[k].r = RMul(ret.r, before[k].r)

\* origin mode: first pose onto the reference's first pose, all relative poses kept
OriginOK(before, after, ref) ==
  /\ Len(before) = Len(after) /\ after[1] = ref[1]
  /\ \A k \in 1..(Len(before) - 1) : PRel(after[k], after[k + 1]) = PRel(before[k], before[k + 1])

\* noise-free family: the first `used` estimate positions are s0 g ref + t0; the unique optimum maps them back onto ref
FitsRefOnUsed(after, ref, used) == \A k \in 1..used : after[k].p = ref[k].p

Verdict(c, o) ==
  \* c = [mode, n, ref, est (before), s0 (generating scale, integer), used]; o = [out, ret, after, refsame, ret2, after2]
  IF o.out # "ok" THEN "AlignmentRefused"
  ELSE IF ~o.refsame THEN "ReferenceModified"
  ELSE IF c.mode = "origin" THEN
         (IF ~OriginOK(c.est, o.after, c.ref) THEN "OriginAlignmentWrong"
          ELSE IF o.after2 # o.after THEN "SecondAlignmentNotIdentity" ELSE "ok")
  ELSE IF ~MovedByReturned(c.est, o.after, o.ret, c.mode) THEN "NotMovedByReturnedTransform"
  ELSE IF c.mode # "scale" /\ ~FitsRefOnUsed(o.after, c.ref, c.used) THEN "DoesNotReproduceGeneratingTransform"
  ELSE IF c.mode = "rigid" /\ o.ret.s # <<1, 1>> THEN "ScaleNotOneWhenOff"
  ELSE IF c.mode \in {"sim", "scale"} /\ ~(o.ret.s[1] * c.s0 = o.ret.s[2]) THEN "WrongScale"
  ELSE IF o.after2 # o.after THEN "SecondAlignmentNotIdentity"
  ELSE IF c.mode # "scale" /\ ~(o.ret2.r = RID /\ o.ret2.t = <<0, 0, 0>> /\ o.ret2.s = <<1, 1>>) THEN "SecondAlignmentNotIdentity"
  ELSE "ok"

\* ---- similarity alignment of an estimate whose scale is within 4e-6 of the reference's (generating scale 1 + 2^-18, any rotation):
\* the aligned poses are valid rigid-body poses (orthonormal to 1e-9, evo's own check passes) and lie on the reference
NearUnitVerdict(c, o) == IF o.out # "ok" THEN "AlignmentRefused"
                         ELSE IF ~o.valid THEN "PoseNotValidAfterAlignment"
                         ELSE IF ~o.fits THEN "DoesNotReproduceGeneratingTransform" ELSE "ok"

\* ---- the matrix recorded by ape()/rpe(): stored estimate = T (unaligned estimate)
ResultVerdict(c, o) ==
  IF o.out # "ok" THEN "EvaluationRefused"
  ELSE IF Len(o.stored) # Len(c.est) THEN "CountChanged"
  ELSE IF o.T.r \notin O24 THEN "RecordedMatrixNotSimilarity"
  ELSE IF \E k \in DOMAIN c.est : ~Exact64(o.T, c.est[k].p) \/ P64(o.stored[k].p) # Moved64(o.T, c.est[k].p)
                                   \/ o.stored[k].r # RMul(o.T.r, c.est[k].r)
       THEN "RecordedMatrixDoesNotMapEstimate"
  ELSE "ok"

==============================================================================

------------------------------ MODULE AlignProps ------------------------------
(* P for C04 on the exact domain: reference poses ref[k] = [r, p] in O24 x Z^3, *)
(* estimate poses before / after alignment, the returned parameters           *)
(* ret = [r : O24 index or -1, t : <<x,y,z>> in 1/64 lattice units, s : <<num, den>>]. *)
(* The returned translation is compared in 1/64 units so that scale 1/2 and   *)
(* 1/4 keep it integral.                                                       *)
EXTENDS ExactGeom
TU == 64       \* sub-units of the returned translation

\* position p moved by the returned similarity, in 1/64 units:  s R p + t
Moved64(ret, p) == LET q == Act(ret.r, p) IN
  <<(TU * ret.s[1] * q[1]) \div ret.s[2] + ret.t[1],
    (TU * ret.s[1] * q[2]) \div ret.s[2] + ret.t[2],
    (TU * ret.s[1] * q[3]) \div ret.s[2] + ret.t[3]>>
Exact64(ret, p) == LET q == Act(ret.r, p) IN \A c \in 1..3 : (TU * ret.s[1] * q[c]) % ret.s[2] = 0
P64(p) == <<TU * p[1], TU * p[2], TU * p[3]>>

MovedByReturned(before, after, ret, mode) ==
  /\ Len(before) = Len(after)
  /\ \A k \in DOMAIN before :
       IF mode = "scale"        \* positions * s, nothing else
       THEN /\ after[k].r = before[k].r
            /\ \A c \in 1..3 : ret.s[2] * after[k].p[c] = ret.s[1] * before[k].p[c]
       ELSE /\ ret.r \in O24 /\ Exact64(ret, before[k].p)
            /\ P64(after[k].p) = Moved64(ret, before[k].p)
            /\ after[k].r = RMul(ret.r, before[k].r)

\* origin mode: first pose onto the reference's first pose, all relative poses kept
OriginOK(before, after, ref) ==
  /\ Len(before) = Len(after) /\ after[1] = ref[1]
  /\ \A k \in 1..(Len(before) - 1) : PRel(after[k], after[k + 1]) = PRel(before[k], before[k + 1])

\* noise-free family: the first `used` estimate positions are s0 g ref + t0; the unique optimum maps them back onto ref
FitsRefOnUsed(after, ref, used) == \A k \in 1..used : after[k].p = ref[k].p

Verdict(c, o) ==
  \* c = [mode, n, ref, est (before), s0 (generating scale, integer), used]; o = [out, ret, after, refsame, ret2, after2]
  IF o.out # "ok" THEN "AlignmentRefused"
  ELSE IF ~o.refsame THEN "ReferenceModified"
  ELSE IF c.mode = "origin" THEN
         (IF ~OriginOK(c.est, o.after, c.ref) THEN "OriginAlignmentWrong"
          ELSE IF o.after2 # o.after THEN "SecondAlignmentNotIdentity" ELSE "ok")
  ELSE IF ~MovedByReturned(c.est, o.after, o.ret, c.mode) THEN "NotMovedByReturnedTransform"
  ELSE IF c.mode # "scale" /\ ~FitsRefOnUsed(o.after, c.ref, c.used) THEN "DoesNotReproduceGeneratingTransform"
  ELSE IF c.mode = "rigid" /\ o.ret.s # <<1, 1>> THEN "ScaleNotOneWhenOff"
  ELSE IF c.mode \in {"sim", "scale"} /\ ~(o.ret.s[1] * c.s0 = o.ret.s[2]) THEN "WrongScale"
  ELSE IF o.after2 # o.after THEN "SecondAlignmentNotIdentity"
  ELSE IF c.mode # "scale" /\ ~(o.ret2.r = RID /\ o.ret2.t = <<0, 0, 0>> /\ o.ret2.s = <<1, 1>>) THEN "SecondAlignmentNotIdentity"
  ELSE "ok"

\* ---- the matrix recorded by ape()/rpe(): stored estimate = T (unaligned estimate)
ResultVerdict(c, o) ==
  IF o.out # "ok" THEN "EvaluationRefused"
  ELSE IF Len(o.stored) # Len(c.est) THEN "CountChanged"
  ELSE IF o.T.r \notin O24 THEN "RecordedMatrixNotSimilarity"
  ELSE IF \E k \in DOMAIN c.est : ~Exact64(o.T, c.est[k].p) \/ P64(o.stored[k].p) # Moved64(o.T, c.est[k].p)
                                   \/ o.stored[k].r # RMul(o.T.r, c.est[k].r)
       THEN "RecordedMatrixDoesNotMapEstimate"
  ELSE "ok"

\* ---- noisy integer data: optimality against the lattice candidate family (necessary condition)
\* x, y : sequences of integer points; residuals scaled: sseAfter64 = floor(64 n^2 SSE_after)
Centered(x) == LET n == Len(x)
                   sx == <<SumSeq([k \in 1..n |-> x[k][1]]), SumSeq([k \in 1..n |-> x[k][2]]), SumSeq([k \in 1..n |-> x[k][3]])>>
               IN [k \in 1..n |-> VSub(VScale(n, x[k]), sx)]
RigidCand(X, Y, g) == SumSeq([k \in DOMAIN X |-> Norm2(VSub(Y[k], Act(g, X[k])))])         \* n^2 SSE*(g), optimal t
Dot(u, v) == u[1] * v[1] + u[2] * v[2] + u[3] * v[3]
OptVerdict(c, o) ==
  LET X == Centered(c.x)  Y == Centered(c.y)
      sxx == SumSeq([k \in DOMAIN X |-> Norm2(X[k])])
      syy == SumSeq([k \in DOMAIN Y |-> Norm2(Y[k])])
  IN IF o.out = "GeometryException" THEN "ok"           \* refusing degenerate data is not judged here
     ELSE IF o.out # "ok" THEN "AlignmentFailedWithUnexpectedError"
     ELSE IF ~o.proper THEN "ImproperRotation"
     ELSE IF o.sseAfter64 > o.sseBefore64 + 1 THEN "FitWorseThanBefore"
     ELSE IF ~c.scale /\ \E g \in O24 : o.sseAfter64 > 64 * RigidCand(X, Y, g) + 1 THEN "WorseThanAnotherRigidTransform"
     ELSE IF c.scale /\ \E g \in O24 :
               LET d == SumSeq([k \in DOMAIN X |-> Dot(Y[k], Act(g, X[k]))]) IN
               d > 0 /\ o.sseAfter64 * sxx > 64 * (syy * sxx - d * d) + sxx THEN "WorseThanAnotherSimilarity"
     ELSE "ok"
==============================================================================

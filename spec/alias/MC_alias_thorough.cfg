SPECIFICATION Spec
CONSTANTS
  MaxObjs = 4
  MaxDepth = 4
  InPlace = FALSE
  Emit = TRUE
  N0 = 6
PROPERTY NoInterference
INVARIANT EmitHist
CHECK_DEADLOCK FALSE

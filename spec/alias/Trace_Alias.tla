------------------------------ MODULE Trace_Alias ------------------------------
EXTENDS AliasProps, TLC, Json, IOUtils
Traces == JsonDeserialize(IOEnv.TRACE_FILE)
VARIABLES tid, verdict
Bad(ev) == {k \in DOMAIN ev : EventVerdict(ev[k]) # "ok"}
Min(S) == CHOOSE x \in S : \A y \in S : x <= y
Init == tid \in 1..Len(Traces) /\ verdict = "pending"
Next == /\ verdict = "pending"
        /\ LET t == Traces[tid]  b == Bad(t.ev) IN
             IF b = {} THEN verdict' = "ok"
             ELSE /\ verdict' = EventVerdict(t.ev[Min(b)])
                  /\ PrintT(<<"REJECT", t.id, EventVerdict(t.ev[Min(b)]), Min(b), t.ev[Min(b)].name>>)
        /\ UNCHANGED tid
Spec == Init /\ [][Next]_<<tid, verdict>>
==============================================================================

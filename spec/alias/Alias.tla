-------------------------------- MODULE Alias --------------------------------
(* M for C16: which numpy arrays evo's trajectory objects SHARE.              *)
(* heap: cell -> value token (one cell = one 4x4 ndarray held in a            *)
(* poses_se3 list).  An object holds a list of cells (or none) plus private   *)
(* position/quaternion arrays (tokens).  Operations as the code does them:    *)
(*   deepcopy / associate / merge : fresh cells / fresh arrays                *)
(*   split_*                      : parts re-list the PARENT's cells          *)
(*   reduce_to_ids                : re-lists the same cells                   *)
(*   transform / scale / align    : rebinds fresh cells                       *)
(*   project                      : copies, then edits (InPlace = TRUE is the *)
(*                                  code before the fix: edits shared cells)  *)
(* TLC explores all histories with <= MaxObjs objects and checks that a step  *)
(* never changes what another object shows (NoInterference), and prints the   *)
(* histories for replay on real objects.                                      *)
EXTENDS AliasProps, Integers, TLC, Json
CONSTANTS MaxObjs, MaxDepth, InPlace, Emit, N0

VARIABLES objs, heap, fresh, h
vars == <<objs, heap, fresh, h>>
Ids == 1..MaxObjs
Dead == [alive |-> FALSE, cells |-> <<>>, priv |-> 0, n |-> 0]
Live == {o \in Ids : objs[o].alive}
FreeIds == Ids \ Live
NewId == CHOOSE o \in FreeIds : \A p \in FreeIds : o <= p

\* what an object shows: the values in its cells (if it has a matrix cache) and its private arrays
Shows(ob, hp) == <<[k \in DOMAIN ob.cells |-> hp[ob.cells[k]]], ob.priv>>

FreshCells(k) == [i \in 1..k |-> fresh + i]
Obj(cells, priv, n) == [alive |-> TRUE, cells |-> cells, priv |-> priv, n |-> n]

Init == /\ objs = [o \in Ids |-> IF o = 1 THEN Obj([i \in 1..N0 |-> i], 0, N0) ELSE Dead]
        /\ heap = [c \in 1..N0 |-> c]
        /\ fresh = N0
        /\ h = <<>>

Log(e) == h' = Append(h, e)
Ev(name, kind, target, args, created) == [name |-> name, kind |-> kind, target |-> target, args |-> args, created |-> created]
ExtendHeap(k) == [c \in 1..(fresh + k) |-> IF c <= fresh THEN heap[c] ELSE c]       \* fresh cells hold fresh tokens

\* copy.deepcopy(o): new arrays everywhere
DeepCopy(o) == /\ FreeIds # {}
               /\ LET k == objs[o].n IN
                    /\ objs' = [objs EXCEPT ![NewId] = Obj(FreshCells(k), 0, k)]
                    /\ heap' = ExtendHeap(k) /\ fresh' = fresh + k
               /\ Log(Ev("DeepCopy", "derive", 0, <<o>>, <<NewId>>))
\* split_*: two parts whose lists contain the parent's arrays
Split(o, how) == /\ Cardinality(FreeIds) >= 2 /\ objs[o].n >= 4 /\ objs[o].cells # <<>>
                 /\ LET a == NewId
                        b == CHOOSE x \in FreeIds \ {a} : \A y \in FreeIds \ {a} : x <= y
                        k == objs[o].n \div 2
                    IN /\ objs' = [objs EXCEPT ![a] = Obj(SubSeq(objs[o].cells, 1, k), 0, k),
                                               ![b] = Obj(SubSeq(objs[o].cells, k + 1, objs[o].n), 0, objs[o].n - k)]
                       /\ Log(Ev("Split", "derive", 0, <<o>>, <<a, b>>) @@ [how |-> how])
                 /\ UNCHANGED <<heap, fresh>>
\* associate_trajectories(o, p): deep copies, reduced
Associate(o, p) == /\ Cardinality(FreeIds) >= 2 /\ o # p
                   /\ LET a == NewId
                          b == CHOOSE x \in FreeIds \ {a} : \A y \in FreeIds \ {a} : x <= y
                          k == IF objs[o].n < objs[p].n THEN objs[o].n ELSE objs[p].n
                      IN /\ objs' = [objs EXCEPT ![a] = Obj(FreshCells(k), 0, k),
                                                 ![b] = Obj([i \in 1..k |-> fresh + k + i], 0, k)]
                         /\ heap' = ExtendHeap(2 * k) /\ fresh' = fresh + 2 * k
                         /\ Log(Ev("Associate", "derive", 0, <<o, p>>, <<a, b>>))
\* trajectory.merge([o, p]): concatenated copies of positions / quaternions / stamps
Merge(o, p) == /\ FreeIds # {} /\ o # p
               /\ objs' = [objs EXCEPT ![NewId] = Obj(<<>>, fresh + 1, objs[o].n + objs[p].n)]
               /\ heap' = ExtendHeap(1) /\ fresh' = fresh + 1
               /\ Log(Ev("Merge", "derive", 0, <<o, p>>, <<NewId>>))
\* trajectory.merge([o]): a list with a single trajectory still yields a new, independent object
Merge1(o) == /\ FreeIds # {}
             /\ objs' = [objs EXCEPT ![NewId] = Obj(<<>>, fresh + 1, objs[o].n)]
             /\ heap' = ExtendHeap(1) /\ fresh' = fresh + 1
             /\ Log(Ev("Merge", "derive", 0, <<o>>, <<NewId>>))
\* transform / scale / align(ref): new matrices
Rebind(o, name, args) == /\ LET k == objs[o].n IN
                              /\ objs' = [objs EXCEPT ![o] = Obj(FreshCells(k), 0, k)]
                              /\ heap' = ExtendHeap(k) /\ fresh' = fresh + k
                         /\ Log(Ev(name, "mutate", o, args, <<>>))
\* reduce_to_ids: the same arrays, re-listed
Reduce(o) == /\ objs[o].n >= 2
             /\ objs' = [objs EXCEPT ![o] = Obj(IF objs[o].cells = <<>> THEN <<>> ELSE SubSeq(objs[o].cells, 1, objs[o].n - 1),
                                                objs[o].priv, objs[o].n - 1)]
             /\ Log(Ev("Reduce", "mutate", o, <<>>, <<>>))
             /\ UNCHANGED <<heap, fresh>>
\* project: edits the matrices (after the fix: copies of them)
Project(o) == /\ LET k == objs[o].n IN
                   IF InPlace /\ objs[o].cells # <<>>
                   THEN /\ heap' = [c \in DOMAIN heap |-> IF \E i \in DOMAIN objs[o].cells : objs[o].cells[i] = c THEN -heap[c] ELSE heap[c]]
                        /\ UNCHANGED <<objs, fresh>>
                   ELSE /\ objs' = [objs EXCEPT ![o] = Obj(FreshCells(k), 0, k)]
                        /\ heap' = ExtendHeap(k) /\ fresh' = fresh + k
              /\ Log(Ev("Project", "mutate", o, <<>>, <<>>))
\* metric / statistics / pair selection / conversion / plot / write: nothing changes
Compute(o, p, what) == /\ Log(Ev(what, "compute", 0, <<o, p>>, <<>>)) /\ UNCHANGED <<objs, heap, fresh>>

Computations == {"APE", "RPE", "Infos", "Pairs", "DataFrame", "Write", "Plot", "Sync", "Geometry"}
Next == /\ Len(h) < MaxDepth
        /\ \E o \in Live :
              \/ DeepCopy(o) \/ Split(o, "time") \/ Split(o, "distance") \/ Split(o, "speed")
              \/ Reduce(o) \/ Project(o) \/ Merge1(o)
              \/ Rebind(o, "Transform", <<>>) \/ Rebind(o, "Scale", <<>>)
              \/ \E p \in Live : \/ Associate(o, p) \/ Merge(o, p)
                                 \/ (o # p /\ Rebind(o, "Align", <<p>>))
                                 \/ (o # p /\ Rebind(o, "AlignOrigin", <<p>>))
                                 \/ (Len(h) = MaxDepth - 1 /\ \E w \in Computations : Compute(o, p, w))
Spec == Init /\ [][Next]_vars

\* the property on the model: whatever the step was, objects other than its target show what they showed before
NoInterference ==
  [][\A o \in Ids : (objs[o].alive /\ (h'[Len(h')].kind # "mutate" \/ h'[Len(h')].target # o))
                      => Shows(objs'[o], heap') = Shows(objs[o], heap)]_vars
EmitHist == (Emit /\ Len(h) = MaxDepth) => PrintT(ToJson(h))
==============================================================================

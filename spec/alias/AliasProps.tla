----------------------------- MODULE AliasProps -----------------------------
(* P for C16: a step performed on (or computing from) some objects must leave *)
(* every OTHER live object bit-for-bit as it was.  An event records           *)
(*   kind    "mutate" (in-place operation on `target`) | "derive" (creates    *)
(*           new objects from the arguments) | "compute" (metric, statistics, *)
(*           selection, conversion, plot, write: changes nothing)             *)
(*   target  object id (0 if none)                                            *)
(*   changed set of ids of previously existing objects whose bitwise snapshot *)
(*           differs after the step                                           *)
EXTENDS Naturals, Sequences, FiniteSets
MayChange(e) == IF e.kind = "mutate" THEN {e.target} ELSE {}
SetOf(s) == {s[k] : k \in DOMAIN s}
EventVerdict(e) == IF SetOf(e.changed) \subseteq MayChange(e) THEN "ok"
                   ELSE IF e.kind = "mutate" THEN "OtherObjectChanged" ELSE "ArgumentModified"
==============================================================================

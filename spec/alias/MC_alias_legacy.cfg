SPECIFICATION Spec
CONSTANTS
  MaxObjs = 4
  MaxDepth = 3
  InPlace = TRUE
  Emit = FALSE
  N0 = 6
PROPERTY NoInterference
INVARIANT EmitHist
CHECK_DEADLOCK FALSE

SPECIFICATION Spec
CONSTANTS
  Emit = TRUE
INVARIANT EmitCases
CHECK_DEADLOCK FALSE

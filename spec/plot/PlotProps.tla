------------------------------- MODULE PlotProps -------------------------------
(* P for C20: what the plot functions must draw for a lattice trajectory         *)
(* (poses in O24 x Z^3, integer stamps).  The axes of a mode are DERIVED FROM    *)
(* THE LETTERS OF ITS NAME: mode "zx" draws coordinate z horizontally and x      *)
(* vertically; "xyz" three axes.  Artist data are alpha-mapped to integers       *)
(* (lattice coordinates pass through matplotlib unchanged).                       *)
EXTENDS ExactGeom
Modes == {"xy", "xz", "yx", "yz", "zx", "zy", "xyz"}
Letters(m) == CASE m = "xy" -> <<"x", "y">> [] m = "xz" -> <<"x", "z">> [] m = "yx" -> <<"y", "x">> [] m = "yz" -> <<"y", "z">>
                [] m = "zx" -> <<"z", "x">> [] m = "zy" -> <<"z", "y">> [] m = "xyz" -> <<"x", "y", "z">>
Idx(l) == CASE l = "x" -> 1 [] l = "y" -> 2 [] l = "z" -> 3
Proj(m, p) == [k \in DOMAIN Letters(m) |-> p[Idx(Letters(m)[k])]]
Label(l, unit) == <<l, unit>>                    \* "$l$ (unit)"
PosSeq(tr) == [k \in DOMAIN tr |-> tr[k].p]

\* c = [mode, unit, traj, other (second trajectory), scale2 (2 * marker scale, lattice units), stamps (<<>> = path), start (0 = none)]
\* o = observation of one figure with: axis labels, the trajectory line, start/end markers, colour-mapped segments,
\*     correspondence edges, coordinate-frame markers
TrajVerdict(c, o) ==
  LET m == c.mode  n == Len(c.traj) IN
  IF o.labels # [k \in DOMAIN Letters(m) |-> Label(Letters(m)[k], c.unit)] THEN "AxisLabelsWrong"
  ELSE IF o.line # [k \in 1..n |-> Proj(m, c.traj[k].p)] THEN "LineNotTheTrajectory"
  \* one marker at the first and one at the last pose (the order in which the two artists were added is not part of the statement)
  ELSE IF Len(o.markers) # 2 \/ {o.markers[1], o.markers[2]} # {Proj(m, c.traj[1].p), Proj(m, c.traj[n].p)}
          \/ (Proj(m, c.traj[1].p) = Proj(m, c.traj[n].p) /\ o.markers[1] # o.markers[2]) THEN "StartEndMarkersWrong"
  ELSE IF o.segments # [k \in 1..(n - 1) |-> <<Proj(m, c.traj[k].p), Proj(m, c.traj[k + 1].p)>>] THEN "ColourSegmentsWrong"
  \* edges and frame markers: one segment per pose (per pose and axis), each exactly where it belongs; the order in which the
  \* segments sit in the collection is not part of the statement
  ELSE IF Len(o.edges) # n \/ SeqRange(o.edges) # {<<Proj(m, c.traj[k].p), Proj(m, c.other[k].p)>> : k \in 1..n} THEN "CorrespondenceEdgesWrong"
  ELSE IF c.scale2 > 0 /\ (Len(o.frames) # 3 * n \/ SeqRange(o.frames) #       \* positions doubled so that scale 1/2 stays integral
            {LET e == [i \in 1..3 |-> IF i = ka[2] THEN c.scale2 ELSE 0] IN
               <<Proj(m, VScale(2, c.traj[ka[1]].p)), Proj(m, VAdd(VScale(2, c.traj[ka[1]].p), Act(c.traj[ka[1]].r, e)))>> : ka \in (1..n) \X (1..3)})
       THEN "FrameMarkersWrong"
  ELSE IF c.scale2 = 0 /\ Len(o.frames) # 0 THEN "FrameMarkersWrong"
  ELSE "ok"

\* per-axis position, roll/pitch/yaw and speed plots against time (or index)
XAxis(c) == IF Len(c.stamps) = 0 THEN [k \in DOMAIN c.traj |-> k - 1] ELSE [k \in DOMAIN c.stamps |-> c.stamps[k] - c.start]
\* roll / pitch / yaw (degrees) plotted for an attitude: any triple in the conventional ranges (roll, yaw in [-180, 180], pitch in
\* [-90, 90]) that reproduces the attitude, R = Rz(yaw) Ry(pitch) Rx(roll).  In gimbal lock (pitch = +-90) roll and yaw are not unique,
\* and which representative is shown is left open; away from it the triple is unique up to the representation of a half turn.
AxisRot(ax, deg) == IF deg % 360 = 0 THEN RID ELSE CHOOSE r \in O24 : r # RID /\ AXIS[r] = ax /\ QTURN[r] = (deg \div 90) % 4
RPYOk(r, t) == /\ \A a \in 1..3 : t[a] % 90 = 0 /\ t[a] >= -180 /\ t[a] <= 180
               /\ t[2] >= -90 /\ t[2] <= 90
               /\ RMul(AxisRot(3, t[3]), RMul(AxisRot(2, t[2]), AxisRot(1, t[1]))) = r
SeriesVerdict(c, o) ==
  LET n == Len(c.traj)  xs == XAxis(c) IN
  IF o.xyz_x # <<xs, xs, xs>> \/ o.rpy_x # <<xs, xs, xs>> THEN "TimeAxisWrong"
  ELSE IF o.xyz_y # [a \in 1..3 |-> [k \in 1..n |-> c.traj[k].p[a]]] THEN "PositionSeriesWrong"
  ELSE IF \E a \in 1..3 : Len(o.rpy_y[a]) # n THEN "AngleSeriesWrong"
  ELSE IF \E k \in 1..n : ~RPYOk(c.traj[k].r, <<o.rpy_y[1][k], o.rpy_y[2][k], o.rpy_y[3][k]>>) THEN "AngleSeriesWrong"
  ELSE IF "rpy2_y" \in DOMAIN o /\ \E k \in 1..n : ~RPYOk(RMul(o.rpy2_g, c.traj[k].r), <<o.rpy2_y[1][k], o.rpy2_y[2][k], o.rpy2_y[3][k]>>)
       THEN "AngleSeriesNotOfTheCurrentPoses"          \* plotted again after the object was rotated from the left by rpy2_g
  ELSE IF "rpy3_flat" \in DOMAIN o /\ ~o.rpy3_flat THEN "AngleSeriesNotOfTheCurrentPoses"        \* after projecting onto xy: roll = pitch = 0
  ELSE IF o.xyz_labels # <<Label("x", c.unit), Label("y", c.unit), Label("z", c.unit)>> THEN "AxisLabelsWrong"
  ELSE IF Len(c.stamps) > 0 /\ o.speed_x # [k \in 1..(n - 1) |-> xs[k + 1]] THEN "SpeedTimeAxisWrong"
  ELSE IF Len(c.stamps) > 0 /\ \E k \in 1..(n - 1) :        \* speed * dt = step length (axis-aligned integer steps)
            o.speed_num[k] # ISqrt(Dist2(c.traj[k].p, c.traj[k + 1].p)) \/ o.speed_den[k] # c.stamps[k + 1] - c.stamps[k] THEN "SpeedSeriesWrong"
  ELSE "ok"

\* the error-value plot: values against the given x array, in order
ErrVerdict(c, o) == IF o.x # c.x \/ o.y # c.y THEN "ErrorValuesNotAgainstGivenX" ELSE "ok"
==============================================================================

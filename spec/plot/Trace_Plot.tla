------------------------------- MODULE Trace_Plot -------------------------------
EXTENDS PlotProps, TLC, Json, IOUtils
Traces == JsonDeserialize(IOEnv.TRACE_FILE)
VARIABLES tid, verdict
Init == tid \in 1..Len(Traces) /\ verdict = "pending"
TV(t) == CASE t.c.fam = "traj" -> TrajVerdict(t.c, t.o)
           [] t.c.fam = "series" -> SeriesVerdict(t.c, t.o)
           [] t.c.fam = "err" -> ErrVerdict(t.c, t.o)
Next == /\ verdict = "pending"
        /\ LET t == Traces[tid]  v == IF t.o.out = "ok" THEN TV(t) ELSE "PlotFunctionFailed" IN
             /\ verdict' = v /\ (v # "ok" => PrintT(<<"REJECT", t.id, v>>))
        /\ UNCHANGED tid
Spec == Init /\ [][Next]_<<tid, verdict>>
==============================================================================

---------------------------------- MODULE Plot ----------------------------------
(* Generator for C20 (M = P here: the plot functions are maps from a trajectory  *)
(* to artist data; the code's if-chain over plot modes is what is being checked  *)
(* against the letter-derived axes).  TLC enumerates mode x unit x stamps x start *)
(* time x marker scale x trajectories.                                            *)
EXTENDS PlotProps, TLC, Json
CONSTANTS Emit
VARIABLES c
TrajA == <<Pose(1, <<1, 2, 3>>), Pose(2, <<1, 5, 3>>), Pose(17, <<-1, 5, 3>>), Pose(6, <<-1, 5, 7>>)>>
TrajB == <<Pose(9, <<0, -2, 4>>), Pose(9, <<3, -2, 4>>), Pose(21, <<3, -2, -1>>)>>
OtherOf(tr) == [k \in DOMAIN tr |-> Pose(1, VAdd(tr[k].p, <<k, -2 * k, 1>>))]
\* attitudes for the time-series plots: all 24 (incl. the gimbal-lock ones, pitch = +-90)
SingleAxis == O24
TrajS(r1, r2) == <<Pose(r1, <<0, 0, 0>>), Pose(r2, <<2, 0, 0>>), Pose(RID, <<2, 3, 0>>), Pose(r1, <<2, 3, 6>>)>>
Init == \/ \E m \in Modes, u \in {"m", "mm", "cm", "km"}, tr \in {TrajA, TrajB}, s2 \in {0, 1, 2} :
             c = [fam |-> "traj", mode |-> m, unit |-> u, traj |-> tr, other |-> OtherOf(tr), scale2 |-> s2]
        \/ \E u \in {"m", "mm"}, r1 \in SingleAxis, r2 \in {RID, 2, 10}, st \in {<<>>, <<0, 1, 3, 4>>, <<10, 12, 13, 17>>}, s0 \in {0, 3, 10} :
             /\ (st = <<>> => s0 \in {0, 3})          \* a start time given for a path without timestamps: still plotted against the pose index
             /\ c = [fam |-> "series", unit |-> u, traj |-> TrajS(r1, r2), stamps |-> st, start |-> s0]
        \/ \E x \in {<<0, 1, 2, 3>>, <<5, 7, 8, 20>>}, y \in {<<3, 1, 4, 1>>, <<0, 0, 2, 9>>} : c = [fam |-> "err", x |-> x, y |-> y]
Next == UNCHANGED c
Spec == Init /\ [][Next]_c
EmitCases == Emit => PrintT(ToJson(c))
==============================================================================

------------------------------ MODULE ConfigProps ------------------------------
(* P for C18.  Settings are abstracted to four representative parameters        *)
(*   B (boolean)  L (list)  N (number)  S (string)                              *)
(* with abstract values  [t |-> "bool", v |-> TRUE/FALSE]  [t |-> "list", v |-> Seq(value)] *)
(* [t |-> "int"|"float"|"str", v |-> token].                                     *)
(* `evo_config set` takes a token list: parameter names followed by values.      *)
EXTENDS Integers, Sequences, FiniteSets, TLC
Params == {"B", "L", "N", "S"}
NumTokens == {"5", "-1", "2.5", "-0.5", "5.0", "1e3", "0", "0.0"}
\* what a numeric token becomes: integral values are integers
Conv(tok) == CASE tok = "5" -> [t |-> "int", v |-> "5"] [] tok = "-1" -> [t |-> "int", v |-> "-1"]
               [] tok = "0" -> [t |-> "int", v |-> "0"] [] tok = "0.0" -> [t |-> "int", v |-> "0"]
               [] tok = "5.0" -> [t |-> "int", v |-> "5"] [] tok = "1e3" -> [t |-> "int", v |-> "1000"]
               [] tok = "2.5" -> [t |-> "float", v |-> "2.5"] [] tok = "-0.5" -> [t |-> "float", v |-> "-0.5"]
               [] OTHER -> [t |-> "str", v |-> tok]
Lower(tok) == CASE tok = "True" -> "true" [] tok = "FALSE" -> "false" [] OTHER -> tok

\* the values that follow the parameter at position i
ValuesAt(toks, i) == LET F[k \in i..Len(toks)] == IF k = i THEN <<>>
                                                   ELSE IF Len(F[k - 1]) < k - 1 - i \/ toks[k] \in Params THEN F[k - 1]
                                                   ELSE Append(F[k - 1], toks[k]) IN F[Len(toks)]
NewValue(key, old, vals) ==
  IF vals = <<>> THEN (IF old.t = "bool" THEN [t |-> "bool", v |-> ~old.v] ELSE old)          \* bare parameter: toggle booleans
  ELSE IF old.t = "bool" THEN
         (IF Lower(vals[Len(vals)]) = "true" THEN [t |-> "bool", v |-> TRUE]
          ELSE IF Lower(vals[Len(vals)]) = "false" THEN [t |-> "bool", v |-> FALSE]
          ELSE [t |-> "bool", v |-> ~old.v])
  ELSE IF old.t = "list" THEN
         (IF vals[1] \in {"[]", "none"} THEN [t |-> "list", v |-> <<>>] ELSE [t |-> "list", v |-> [k \in DOMAIN vals |-> Conv(vals[k])]])
  ELSE Conv(vals[1])
\* expected settings after `set toks`, processing parameters left to right
AfterSet(cfg, toks) ==
  LET F[i \in 0..Len(toks)] == IF i = 0 THEN cfg
                               ELSE IF toks[i] \in Params THEN [F[i - 1] EXCEPT ![toks[i]] = NewValue(toks[i], F[i - 1][toks[i]], ValuesAt(toks, i))]
                               ELSE F[i - 1]
  IN F[Len(toks)]
TypeKept(old, new) == (old.t = "bool" => new.t = "bool") /\ (old.t = "list" => new.t = "list")

\* o = [out, cfg (the four parameters after the call), keys_same (key set of the whole file unchanged), others_same]
SetVerdict(cfg, toks, o) ==
  IF o.out # "ok" THEN "SetFailed"
  ELSE IF ~o.keys_same THEN "KeysAddedOrRemoved"
  ELSE IF ~o.others_same THEN "UnnamedParameterChanged"
  ELSE IF \E p \in Params : ~TypeKept(cfg[p], o.cfg[p]) THEN "TypeNotKept"
  ELSE IF \E p \in Params : p \notin {toks[k] : k \in DOMAIN toks} /\ o.cfg[p] # cfg[p] THEN "UnnamedParameterChanged"
  ELSE IF o.cfg # AfterSet(cfg, toks) THEN "WrongValue"
  ELSE "ok"

\* reset of a subset: exactly those parameters back to their defaults
ResetVerdict(defaults, cfg, subset, o) ==
  IF o.out # "ok" THEN "ResetFailed"
  ELSE IF ~o.keys_same \/ ~o.others_same THEN "UnnamedParameterChanged"
  ELSE IF \E p \in Params : o.cfg[p] # (IF p \in subset THEN defaults[p] ELSE cfg[p]) THEN "WrongValue"
  ELSE "ok"

\* version upgrade (soft merge of the defaults): every missing default key is added, no value the user has set changes
\* (also when that value is falsy: False, [], 0, "")
UpgradeVerdict(c, o) == IF o.out # "ok" THEN "UpgradeFailed"
                        ELSE IF ~o.all_keys THEN "DefaultKeyMissingAfterUpgrade"
                        ELSE IF ~o.user_kept THEN "UserValueChangedByUpgrade"
                        ELSE IF ~o.added_defaults THEN "AddedKeyNotTheDefault"
                        \* a reset of some parameters later in the SAME process must still restore the defaults
                        ELSE IF ~o.reset_after_ok THEN "ResetDoesNotRestoreDefaults" ELSE "ok"
\* unknown parameters cannot be added to the loaded settings
LockVerdict(c, o) == IF o.refused /\ o.keys_same THEN "ok" ELSE "UnknownParameterAdded"
\* -c: the config file's values win over command-line values and over matching package settings, for that run only
OverrideVerdict(c, o) == IF ~o.args_priority THEN "ConfigDoesNotOverrideArguments"
                         ELSE IF ~o.settings_overridden THEN "ConfigDoesNotOverrideSettings"
                         ELSE IF ~o.file_same THEN "SettingsFileChangedByRun"
                         ELSE IF ~o.unknown_ignored THEN "UnknownParameterAdded" ELSE "ok"

\* evo_config set -c FILE [tokens] --merge OTHER [--soft]: FILE becomes the union (OTHER's values win unless --soft: then only missing
\* keys are added), after the named keys were set; OTHER and the package settings file are not touched
MergeVerdict(c, o) == IF o.out # "ok" THEN "MergeFailed"
                      ELSE IF ~o.file_is_union THEN "MergedFileNotTheUnion"
                      ELSE IF ~o.other_same THEN "MergedInFileChanged"
                      ELSE IF ~o.settings_same THEN "OtherFileChangedByMerge" ELSE "ok"
\* a run with -c FILE: plot settings given in FILE are in effect for the figures of that run (observed in a fresh process)
RunOverrideVerdict(c, o) == IF o.out # "ok" THEN "RunWithConfigFailed"
                            ELSE IF ~o.effective THEN "ConfigDoesNotOverrideSettings"
                            ELSE IF ~o.file_same THEN "SettingsFileChangedByRun" ELSE "ok"

\* generated config: for each option of the argument list the two parses agree, integers stay integers
\* c.opts = Seq(kind), o.eq = Seq(BOOLEAN), o.intok = Seq(BOOLEAN), o.extra (keys in the config that are not options)
GenVerdict(c, o) ==
  IF o.out # "ok" THEN "GeneratedConfigUnusable"
  ELSE IF \E k \in DOMAIN c.opts : ~o.eq[k] THEN "NotTheSameEffectAsTheArguments"
  ELSE IF \E k \in DOMAIN c.opts : c.opts[k] \in {"int", "negint"} /\ ~o.intok[k] THEN "IntegerOptionNotInteger"
  ELSE IF o.extra > 0 THEN "SpuriousKeysGenerated"
  ELSE "ok"
==============================================================================

SPECIFICATION Spec
CONSTANTS
  Which = "set"
  MaxLen = 4
  Emit = TRUE
INVARIANT TypesKeptInModel
INVARIANT EmitCases
CHECK_DEADLOCK FALSE

----------------------------- MODULE Trace_Config -----------------------------
EXTENDS ConfigProps, Json, IOUtils
Traces == JsonDeserialize(IOEnv.TRACE_FILE)
VARIABLES tid, verdict
Cfg0 == [B |-> [t |-> "bool", v |-> FALSE], L |-> [t |-> "list", v |-> <<[t |-> "str", v |-> "rmse"]>>],
         N |-> [t |-> "float", v |-> "1.5"], S |-> [t |-> "str", v |-> "pdf"]]
SetOf(s) == {s[k] : k \in DOMAIN s}
Init == tid \in 1..Len(Traces) /\ verdict = "pending"
TV(t) == CASE t.c.fam = "set" -> SetVerdict(Cfg0, t.c.toks, t.o)
           [] t.c.fam = "reset" -> ResetVerdict(Cfg0, AfterSet(Cfg0, t.c.toks), SetOf(t.c.subset), t.o)
           [] t.c.fam = "upgrade" -> UpgradeVerdict(t.c, t.o)
           [] t.c.fam = "lock" -> LockVerdict(t.c, t.o)
           [] t.c.fam = "override" -> OverrideVerdict(t.c, t.o)
           [] t.c.fam = "gen" -> GenVerdict(t.c, t.o)
           [] t.c.fam = "climerge" -> MergeVerdict(t.c, t.o)
           [] t.c.fam = "runoverride" -> RunOverrideVerdict(t.c, t.o)
Next == /\ verdict = "pending"
        /\ LET t == Traces[tid]  v == TV(t) IN
             /\ verdict' = v /\ (v # "ok" => PrintT(<<"REJECT", t.id, v>>))
        /\ UNCHANGED tid
Spec == Init /\ [][Next]_<<tid, verdict>>
==============================================================================

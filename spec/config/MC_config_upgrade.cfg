SPECIFICATION Spec
CONSTANTS
  Which = "upgrade"
  MaxLen = 3
  Emit = TRUE
INVARIANT TypesKeptInModel
INVARIANT EmitCases
CHECK_DEADLOCK FALSE

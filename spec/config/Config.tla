--------------------------------- MODULE Config ---------------------------------
(* Generator / M for C18: main_config.set_config is the token loop of           *)
(* ConfigProps!AfterSet (one step per parameter token: collect the following     *)
(* non-parameter tokens, convert numbers, finalize by the old type);             *)
(* main_config.generate is abstracted to the KINDS of options in the argument    *)
(* list.  TLC enumerates token lists and option-kind lists.                      *)
EXTENDS ConfigProps, Json
CONSTANTS Which, MaxLen, Emit
VARIABLES c
Tokens == Params \cup {"true", "FALSE", "5", "-1", "2.5", "-0.5", "5.0", "1e3", "0", "0.0", "abc", "[]", "none", "zzz"}
Kinds == {"flag", "int", "negint", "float", "negfloat", "expfloat", "intfloat", "str", "nargs2", "repeat"}     \* repeat: the previous value option again with another value (argparse: last one wins)
Cfg0 == [B |-> [t |-> "bool", v |-> FALSE], L |-> [t |-> "list", v |-> <<[t |-> "str", v |-> "rmse"]>>],
         N |-> [t |-> "float", v |-> "1.5"], S |-> [t |-> "str", v |-> "pdf"]]
Init == CASE Which = "set" -> \E n \in 1..MaxLen : \E toks \in [1..n -> Tokens] :
                                 /\ \E k \in 1..n : toks[k] \in Params
                                 /\ c = [fam |-> "set", toks |-> toks, want |-> AfterSet(Cfg0, toks)]
          [] Which = "reset" -> \E sub \in SUBSET Params, toks \in {<<"B", "L", "abc", "N", "5">>, <<"S", "zzz", "N", "-0.5", "B", "true">>} :
                                 c = [fam |-> "reset", toks |-> toks, subset |-> sub]
          [] Which = "upgrade" -> \E miss \in SUBSET Params, falsy \in SUBSET Params : miss \cap falsy = {} /\ c = [fam |-> "upgrade", missing |-> miss, falsy |-> falsy]
          [] Which = "gen" -> \E n \in 1..MaxLen : \E ks \in [1..n -> Kinds] : c = [fam |-> "gen", opts |-> ks]
Next == UNCHANGED c
Spec == Init /\ [][Next]_c
TypesKeptInModel == c.fam = "set" => \A p \in Params : TypeKept(Cfg0[p], c.want[p])
EmitCases == Emit => PrintT(ToJson(c))
==============================================================================

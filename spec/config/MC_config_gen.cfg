SPECIFICATION Spec
CONSTANTS
  Which = "gen"
  MaxLen = 3
  Emit = TRUE
INVARIANT TypesKeptInModel
INVARIANT EmitCases
CHECK_DEADLOCK FALSE

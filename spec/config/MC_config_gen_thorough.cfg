SPECIFICATION Spec
CONSTANTS
  Which = "gen"
  MaxLen = 4
  Emit = TRUE
INVARIANT TypesKeptInModel
INVARIANT EmitCases
CHECK_DEADLOCK FALSE

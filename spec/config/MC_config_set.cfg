SPECIFICATION Spec
CONSTANTS
  Which = "set"
  MaxLen = 3
  Emit = TRUE
INVARIANT TypesKeptInModel
INVARIANT EmitCases
CHECK_DEADLOCK FALSE

SPECIFICATION Spec
CONSTANTS
  Which = "reset"
  MaxLen = 3
  Emit = TRUE
INVARIANT TypesKeptInModel
INVARIANT EmitCases
CHECK_DEADLOCK FALSE

---------------------------- MODULE LeastSquares ----------------------------
(* Exact least-squares bounds on integer point sets (shared by C03 and C04):  *)
(* for a fixed lattice rotation g the optimal translation (and scale) is known *)
(* in closed form, so n^2 SSE*(g) is an integer (a rational with scale).       *)
EXTENDS ExactGeom
\* ---- noisy integer data: optimality against the lattice candidate family (necessary condition)
\* x, y : sequences of integer points; residuals scaled: sseAfter64 = floor(64 n^2 SSE_after)
Centered(x) == LET n == Len(x)
                   sx == <<SumSeq([k \in 1..n |-> x[k][1]]), SumSeq([k \in 1..n |-> x[k][2]]), SumSeq([k \in 1..n |-> x[k][3]])>>
               IN [k \in 1..n |-> VSub(VScale(n, x[k]), sx)]
RigidCand(X, Y, g) == SumSeq([k \in DOMAIN X |-> Norm2(VSub(Y[k], Act(g, X[k])))])         \* n^2 SSE*(g), optimal t
Dot(u, v) == u[1] * v[1] + u[2] * v[2] + u[3] * v[3]
OptVerdict(c, o) ==
  LET X == Centered(c.x)  Y == Centered(c.y)
      sxx == SumSeq([k \in DOMAIN X |-> Norm2(X[k])])
      syy == SumSeq([k \in DOMAIN Y |-> Norm2(Y[k])])
  IN IF o.out = "GeometryException" THEN "ok"           \* refusing degenerate data is not judged here
     ELSE IF o.out # "ok" THEN "AlignmentFailedWithUnexpectedError"
     ELSE IF ~o.proper THEN "ImproperRotation"
     ELSE IF o.sseAfter64 > o.sseBefore64 + 1 THEN "FitWorseThanBefore"
     ELSE IF ~c.scale /\ \E g \in O24 : o.sseAfter64 > 64 * RigidCand(X, Y, g) + 1 THEN "WorseThanAnotherRigidTransform"
     ELSE IF c.scale /\ \E g \in O24 :
               LET d == SumSeq([k \in DOMAIN X |-> Dot(Y[k], Act(g, X[k]))]) IN
               d > 0 /\ o.sseAfter64 * sxx > 64 * (syy * sxx - d * d) + sxx THEN "WorseThanAnotherSimilarity"
     ELSE "ok"
==============================================================================

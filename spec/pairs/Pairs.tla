--------------------------------- MODULE Pairs ---------------------------------
(* M for C10: evo.core.filters pair selectors as loops, dispatched like         *)
(* metrics.id_pairs_from_delta.  TLC enumerates small pose sequences x unit x   *)
(* mode x delta x tolerance, checks M => P (PairsProps) and prints the cases.   *)
EXTENDS PairsProps, TLC, Json
CONSTANTS Which, MaxN, StepVals, HeadVals, Emit, Bug
VARIABLES c, q, o, pc
vars == <<c, q, o, pc>>
Seqs(S, n) == [1..n -> S]
Cum(f) == [k \in 1..(Len(f) + 1) |-> Sum(f, 1, k - 1)]

\* filter_pairs_by_index
MFrames(n, d, all) == IF all THEN [k \in 1..(IF n - d > 0 THEN n - d ELSE 0) |-> <<k - 1, k - 1 + d>>]
                      ELSE [k \in 1..((n - 1) \div d) |-> <<(k - 1) * d, k * d>>]
\* filter_pairs_by_path, consecutive: ids of poses where the path since the last id reaches delta
MPathIds(cc, d) ==
  LET F[i \in 0..(NP(cc) - 1)] ==       \* <<ids, current_path>> after visiting pose i
        LET prev == IF i = 0 THEN <<<<>>, 0>> ELSE F[i - 1]
            cur == prev[2] + (IF i = 0 THEN 0 ELSE cc.steps[i])
        IN IF (IF Bug = "path_gt" THEN cur > d ELSE cur >= d) THEN <<Append(prev[1], i), 0>> ELSE <<prev[1], cur>>
  IN F[NP(cc) - 1][1]
Zip(ids) == [k \in 1..(IF Len(ids) > 0 THEN Len(ids) - 1 ELSE 0) |-> <<ids[k], ids[k + 1]>>]
\* all pairs: for every i the argmin candidate (first minimum), accepted within tolerance
MPathAll(cc, d, tn, td) ==
  LET n == NP(cc)
      Cand(i) == CHOOSE j \in (i + 1)..(n - 1) :
                    /\ \A m \in (i + 1)..(n - 1) : Abs(Path(cc, i, j) - d) <= Abs(Path(cc, i, m) - d)
                    /\ \A m \in (i + 1)..(j - 1) : Abs(Path(cc, i, m) - d) > Abs(Path(cc, i, j) - d)
      F[i \in -1..(n - 2)] == IF i = -1 THEN <<>>
                              ELSE IF WithinTol(Path(cc, i, Cand(i)), d, tn, td) THEN Append(F[i - 1], <<i, Cand(i)>>) ELSE F[i - 1]
  IN F[n - 2]
\* filter_pairs_by_angle, consecutive
MRotChain(cc, d) ==
  LET F[k \in 0..(NP(cc) - 1)] ==      \* <<pairs, accumulated, start>> after step k
        IF k = 0 THEN <<<<>>, 0, 0>>
        ELSE LET p == F[k - 1]  acc == p[2] + Turn(cc, k) IN
             IF acc >= d THEN <<Append(p[1], <<p[3], k>>), 0, k>> ELSE <<p[1], acc, p[3]>>
  IN F[NP(cc) - 1][1]
MRotAll(cc, d, tn, td) ==
  LET n == NP(cc)
      all == {<<i, j>> \in (0..(n - 2)) \X (1..(n - 1)) : i < j /\ Rel(cc, i, j) * td >= d * (td - tn) /\ Rel(cc, i, j) * td <= d * (td + (IF Bug = "tol_ignored" THEN 0 ELSE tn))}
      Ord[k \in 0..(n * n)] == IF k = 0 THEN <<>>
                               ELSE LET pr == <<(k - 1) \div n, (k - 1) % n>> IN IF pr \in all THEN Append(Ord[k - 1], pr) ELSE Ord[k - 1]
  IN Ord[n * n]

Select(cc, qq) ==
  CASE qq.unit = "frames" -> MFrames(NP(cc), qq.d, qq.all)
    [] qq.unit = "meters" -> IF qq.all THEN MPathAll(cc, qq.d, qq.tn, qq.td) ELSE Zip(MPathIds(cc, qq.d))
    [] OTHER -> IF qq.all THEN MRotAll(cc, qq.d, qq.tn, qq.td) ELSE MRotChain(cc, qq.d)

Tols == {<<0, 1>>, <<1, 4>>, <<1, 2>>, <<1, 1>>}
Init == /\ pc = "call" /\ o = [out |-> "none"]
        /\ CASE Which = "frames" ->
                  \E n \in 2..MaxN, d \in 1..MaxN, all \in BOOLEAN :
                     /\ c = [steps |-> [k \in 1..(n - 1) |-> 1], heads |-> [k \in 1..n |-> 0]]
                     /\ q = [unit |-> "frames", d |-> d, all |-> all, tn |-> 0, td |-> 1]
             [] Which = "meters" ->
                  \E n \in 2..MaxN : \E st \in Seqs(StepVals, n - 1), d \in 1..6, all \in BOOLEAN, tol \in Tols :
                     /\ (~all => tol = <<0, 1>>)
                     /\ c = [steps |-> st, heads |-> [k \in 1..n |-> 0]]
                     /\ q = [unit |-> "meters", d |-> d, all |-> all, tn |-> tol[1], td |-> tol[2]]
             [] Which = "angle" ->
                  \E n \in 2..MaxN : \E hs \in Seqs(HeadVals, n - 1), d \in {30, 45, 75, 90, 180}, all \in BOOLEAN, tol \in Tols, u \in {"degrees", "radians"} :
                     /\ (~all => tol = <<0, 1>>)
                     /\ c = [steps |-> [k \in 1..(n - 1) |-> 1], heads |-> Cum(hs)]
                     /\ q = [unit |-> u, d |-> d, all |-> all, tn |-> tol[1], td |-> tol[2]]
Call == /\ pc = "call" /\ pc' = "done" /\ UNCHANGED <<c, q>>
        /\ LET prs == Select(c, q) IN
             o' = IF Len(prs) = 0 THEN [out |-> "FilterException", pairs |-> <<>>] ELSE [out |-> "ok", pairs |-> prs]
Spec == Init /\ [][Call]_vars
MImpliesP == pc = "done" => Verdict(c, q, o) = "ok"
EmitCases == (Emit /\ pc = "done") => PrintT(ToJson([c |-> c, q |-> q, m |-> o]))
==============================================================================

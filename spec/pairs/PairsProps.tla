------------------------------ MODULE PairsProps ------------------------------
(* P for C10: which index pairs realise a requested delta.                     *)
(* A pose sequence is given by steps[k] (integer length of step k -> k+1) and  *)
(* heads[k] (heading in degrees about z); poses are numbered 0..N-1 as in evo. *)
(* Accumulated / relative ANGLES come out of so3_log in floating point, so a   *)
(* value that hits the threshold exactly may be judged either way (envelope);  *)
(* frames, metres and tolerances on the dyadic grid are exact.                 *)
EXTENDS Integers, Sequences, FiniteSets
Abs(x) == IF x < 0 THEN -x ELSE x
NP(c) == Len(c.steps) + 1
Sum(f, a, b) == LET F[k \in (a - 1)..b] == IF k < a THEN 0 ELSE F[k - 1] + f[k] IN IF b < a THEN 0 ELSE F[b]
Path(c, i, j) == Sum(c.steps, i + 1, j)                \* path length from pose i to pose j (0-based poses)
\* relative rotation angle (degrees) between poses i and j: from planar headings, or given as a matrix (relm) for 3-D attitudes
Rel(c, i, j) == IF "relm" \in DOMAIN c THEN c.relm[i + 1][j + 1]
                ELSE LET d == Abs(c.heads[i + 1] - c.heads[j + 1]) % 360 IN IF d > 180 THEN 360 - d ELSE d
Turn(c, k) == Rel(c, k - 1, k)                         \* rotation of step k (pose k-1 -> k)
AccRot(c, i, j) == LET F[k \in i..j] == IF k = i THEN 0 ELSE F[k - 1] + Turn(c, k) IN F[j]
InRange(c, prs) == \A k \in DOMAIN prs : 0 <= prs[k][1] /\ prs[k][1] < prs[k][2] /\ prs[k][2] < NP(c)
IsChain(prs) == \A k \in 1..(Len(prs) - 1) : prs[k + 1][1] = prs[k][2]
NoDup(prs) == \A a, b \in DOMAIN prs : a # b => prs[a] # prs[b]
AsSet(prs) == {prs[k] : k \in DOMAIN prs}

\* ---- frames
FramesOK(c, d, all, prs) ==
  IF all THEN NoDup(prs) /\ AsSet(prs) = {<<i, i + d>> : i \in 0..(NP(c) - 1 - d)}
  ELSE prs = [k \in 1..((NP(c) - 1) \div d) |-> <<(k - 1) * d, k * d>>]

\* ---- metres, consecutive: chain; j first pose reaching delta since i; first start no later than the first pose
\*      reaching delta from pose 0; the remainder after the last pair does not reach delta
PathChainOK(c, d, prs) ==
  /\ IsChain(prs)
  /\ \A k \in DOMAIN prs : LET i == prs[k][1]  j == prs[k][2] IN
        Path(c, i, j) >= d /\ \A m \in (i + 1)..(j - 1) : Path(c, i, m) < d
  /\ Len(prs) > 0 => /\ \A m \in 0..(prs[1][1] - 1) : Path(c, 0, m) < d            \* start <= first pose reaching d from 0
                     /\ \A m \in (prs[Len(prs)][2] + 1)..(NP(c) - 1) : Path(c, prs[Len(prs)][2], m) < d
PathChainMustExist(c, d) ==        \* some start no later than the first reach has a successor reaching delta
  \E f \in 0..(NP(c) - 1) : Path(c, 0, f) >= d /\ (\A m \in 0..(f - 1) : Path(c, 0, m) < d)
                             /\ \E j \in (f + 1)..(NP(c) - 1) : Path(c, f, j) >= d

\* ---- metres, all pairs: |path - d| <= d tol (tol = tn/td), j a closest pose for that i, each such i exactly once
WithinTol(x, d, tn, td) == Abs(x - d) * td <= d * tn
PathAllOK(c, d, tn, td, prs) ==
  /\ NoDup(prs) /\ \A a, b \in DOMAIN prs : a # b => prs[a][1] # prs[b][1]
  /\ \A k \in DOMAIN prs : LET i == prs[k][1]  j == prs[k][2] IN
        /\ WithinTol(Path(c, i, j), d, tn, td)
        /\ \A m \in (i + 1)..(NP(c) - 1) : Abs(Path(c, i, j) - d) <= Abs(Path(c, i, m) - d)
  /\ \A i \in 0..(NP(c) - 2) :
        (\E m \in (i + 1)..(NP(c) - 1) : WithinTol(Path(c, i, m), d, tn, td)
                                         /\ \A q \in (i + 1)..(NP(c) - 1) : Abs(Path(c, i, m) - d) <= Abs(Path(c, i, q) - d))
        => \E k \in DOMAIN prs : prs[k][1] = i

\* ---- angle, consecutive (accumulated rotation along the path), envelope at exact hits
RotChainOK(c, d, prs) ==
  /\ IsChain(prs) /\ (Len(prs) > 0 => prs[1][1] = 0)
  /\ \A k \in DOMAIN prs : LET i == prs[k][1]  j == prs[k][2] IN
        AccRot(c, i, j) >= d /\ \A m \in (i + 1)..(j - 1) : AccRot(c, i, m) <= d
  /\ LET last == IF Len(prs) = 0 THEN 0 ELSE prs[Len(prs)][2] IN
        \A m \in (last + 1)..(NP(c) - 1) : AccRot(c, last, m) <= d
\* ---- angle, all pairs: exactly the pairs whose relative angle lies in d (1 -+ tol); either way on the band edges
RotAllOK(c, d, tn, td, prs) ==
  /\ NoDup(prs)
  /\ \A k \in DOMAIN prs : LET a == Rel(c, prs[k][1], prs[k][2]) IN a * td >= d * (td - tn) /\ a * td <= d * (td + tn)
  /\ \A i \in 0..(NP(c) - 2) : \A j \in (i + 1)..(NP(c) - 1) :
        LET a == Rel(c, i, j) IN (a * td > d * (td - tn) /\ a * td < d * (td + tn)) => <<i, j>> \in AsSet(prs)

Ok(c, q, prs) ==
  /\ InRange(c, prs)
  /\ CASE q.unit = "frames" -> FramesOK(c, q.d, q.all, prs)
       [] q.unit = "meters" -> IF q.all THEN PathAllOK(c, q.d, q.tn, q.td, prs) ELSE PathChainOK(c, q.d, prs)
       [] q.unit \in {"degrees", "radians"} -> IF q.all THEN RotAllOK(c, q.d, q.tn, q.td, prs) ELSE RotChainOK(c, q.d, prs)

\* an empty selection must be reported as evo's filter error - and only an empty one
Verdict(c, q, o) ==
  IF o.out = "FilterException" THEN (IF Ok(c, q, <<>>) THEN "ok" ELSE "RefusedThoughPairsExist")
  ELSE IF o.out # "ok" THEN "UnexpectedError"
  ELSE IF Len(o.pairs) = 0 THEN "EmptyListInsteadOfError"
  ELSE IF ~InRange(c, o.pairs) THEN "IndexOutOfRange"
  ELSE IF ~Ok(c, q, o.pairs) THEN "WrongPairs"
  ELSE "ok"
==============================================================================

SPECIFICATION Spec
CONSTANTS
  Which = "angle"
  MaxN = 4
  StepVals = {0, 1, 2, 3}
  HeadVals = {0, 30, 45, 90, 180}
  Emit = TRUE
  Bug = "none"
INVARIANT MImpliesP
INVARIANT EmitCases
CHECK_DEADLOCK FALSE

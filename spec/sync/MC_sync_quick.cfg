SPECIFICATION Spec
CONSTANTS
  MaxStamp = 5
  MaxLen = 3
  MDs = {0, 1, 2}
  Offs <- OffsSmall
  Legacy = FALSE
  Emit = TRUE
INVARIANT TypeOK
INVARIANT MImpliesP
INVARIANT EmitCases
CHECK_DEADLOCK FALSE

SPECIFICATION Spec
CONSTANTS
  MaxStamp = 7
  MaxLen = 4
  MDs = {0, 1, 2}
  Offs <- OffsSmall
  Legacy = FALSE
  Emit = TRUE
INVARIANT TypeOK
INVARIANT MImpliesP
INVARIANT EmitCases
CHECK_DEADLOCK FALSE

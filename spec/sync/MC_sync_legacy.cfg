SPECIFICATION Spec
CONSTANTS
  MaxStamp = 5
  MaxLen = 3
  MDs = {0, 1, 2}
  Offs <- OffsSmall
  Legacy = TRUE
  Emit = FALSE
INVARIANT TypeOK
INVARIANT MImpliesP
INVARIANT EmitCases
CHECK_DEADLOCK FALSE

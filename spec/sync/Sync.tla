-------------------------------- MODULE Sync --------------------------------
(* M for C05: evo.core.sync as the code does it.                             *)
(*   associate_trajectories: choose the longer input (second only if strictly*)
(*   longer), deep-copy both, run matching_time_indices(short, long, md,     *)
(*   +off if second is longer else -off), reduce both, swap back, raise if   *)
(*   nothing matched.                                                        *)
(*   matching_time_indices: one loop iteration per stamp of the first list:  *)
(*   argmin (first minimum) over the second list, accept if <= max_diff,     *)
(*   keep only the closest first-list stamp per second-list stamp (Legacy =  *)
(*   the code before the fix: every accepted pair is appended).              *)
(* TLC checks M => P (SyncProps) for every input constellation in the bound, *)
(* and prints every case with M's result for replay into the real code.     *)
EXTENDS SyncProps, TLC, Json
CONSTANTS MaxStamp, MaxLen, MDs, Offs, Legacy, Emit

OffsSmall == -2..2
OffsWide == {-3, -1, 0, 1, 2, 3}
IncSeqs(n) == {s \in [1..n -> 0..MaxStamp] : \A k \in 1..(n - 1) : s[k] < s[k + 1]}
Inputs == UNION {IncSeqs(n) : n \in 1..MaxLen}

VARIABLES A, B, md, off,      \* the call's arguments
          pc, i, matches, out \* matches: sequence of <<shortIdx, longIdx, diff>>
vars == <<A, B, md, off, pc, i, matches, out>>

SndLonger == Len(B) > Len(A)
Short == IF SndLonger THEN A ELSE B
Long  == IF SndLonger THEN B ELSE A
OffL  == IF SndLonger THEN off ELSE -off     \* offset added to the long list's stamps

DiffSL(s, l) == Abs((Long[l] + OffL) - Short[s])
ArgMin(s) == CHOOSE l \in 1..Len(Long) :
                /\ \A k \in 1..Len(Long) : DiffSL(s, l) <= DiffSL(s, k)
                /\ \A k \in 1..(l - 1) : DiffSL(s, k) > DiffSL(s, l)      \* numpy argmin: first minimum

Init == /\ A \in Inputs /\ B \in Inputs /\ md \in MDs /\ off \in Offs
        /\ pc = "loop" /\ i = 1 /\ matches = <<>> /\ out = [kind |-> "none"]

\* one iteration of the for loop in matching_time_indices
Loop == /\ pc = "loop" /\ i <= Len(Short)
        /\ LET l == ArgMin(i)  d == DiffSL(i, l) IN
             IF d > md THEN UNCHANGED matches
             ELSE IF Legacy THEN matches' = Append(matches, <<i, l, d>>)
             ELSE IF \E k \in DOMAIN matches : matches[k][2] = l /\ matches[k][3] <= d
                  THEN UNCHANGED matches                          \* an earlier stamp is at least as close
             ELSE matches' = Append(SelectSeq(matches, LAMBDA m : m[2] # l), <<i, l, d>>)
        /\ i' = i + 1 /\ UNCHANGED <<A, B, md, off, pc, out>>

\* reduce_to_ids on both copies, swap back, raise if empty
Finish == /\ pc = "loop" /\ i > Len(Short)
          /\ pc' = "done"
          /\ out' = IF Len(matches) = 0 THEN [kind |-> "raise", exc |-> "SyncException", unchanged |-> TRUE]
                    ELSE LET si == [k \in DOMAIN matches |-> matches[k][1]]
                             li == [k \in DOMAIN matches |-> matches[k][2]]
                             ia == IF SndLonger THEN si ELSE li
                             ib == IF SndLonger THEN li ELSE si
                         IN [kind |-> "ok", unchanged |-> TRUE,
                             a |-> [k \in DOMAIN ia |-> <<ia[k], ia[k]>>],
                             b |-> [k \in DOMAIN ib |-> <<ib[k], ib[k]>>]]
          /\ UNCHANGED <<A, B, md, off, i, matches>>

Next == Loop \/ Finish
Spec == Init /\ [][Next]_vars

MImpliesP == pc = "done" => Verdict(A, B, md, off, out) = "ok"
TypeOK == pc \in {"loop", "done"} /\ i \in 1..(MaxLen + 1)
EmitCases == (Emit /\ pc = "done") =>
               PrintT(ToJson([A |-> A, B |-> B, md |-> md, off |-> off, m |-> out]))
==============================================================================

------------------------------ MODULE SyncProps ------------------------------
(* P for C05: what an execution of evo's time association may look like.      *)
(* Written from the property statement only.  Timestamps are integers in     *)
(* units of a dyadic dt (exact in float64), so "difference = max_diff" is a  *)
(* real boundary.  Ties (two equidistant counterparts, equally long inputs)  *)
(* are left open exactly as the statement leaves them open.                  *)
EXTENDS Integers, Sequences, FiniteSets

Abs(x) == IF x < 0 THEN -x ELSE x
Range(s) == {s[k] : k \in DOMAIN s}
StrictlyInc(s) == \A k \in 1..(Len(s) - 1) : s[k] < s[k + 1]

\* |t1 - (t2 + offset)| for the i-th stamp of the first and the j-th of the second input
Dist(A, B, off, i, j) == Abs(A[i] - (B[j] + off))

\* Nearest counterparts; a set because of ties.  The stamp vectors are strictly increasing (the property quantifies over such
\* vectors), so the nearest counterparts of a value v are among the last stamp <= v and the first stamp > v: linear, not quadratic.
CountLE(S, v) == Cardinality({j \in 1..Len(S) : S[j] <= v})
NearestIn(S, v) == LET p == CountLE(S, v)
                       cand == {p, p + 1} \cap (1..Len(S))
                   IN {j \in cand : \A k \in cand : Abs(S[j] - v) <= Abs(S[k] - v)}
NearestB(A, B, off, i) == NearestIn(B, A[i] - off)      \* nearest counterparts (in B) of A[i]:  |A[i] - (B[j] + off)| minimal
NearestA(A, B, off, j) == NearestIn(A, B[j] + off)

AnyWithin(A, B, md, off) ==
  \E i \in 1..Len(A) : \E j \in NearestB(A, B, off, i) : Dist(A, B, off, i, j) <= md

\* which input may play "the trajectory with fewer poses" (either one if equally long)
ShortSides(A, B) == IF Len(A) < Len(B) THEN {"A"} ELSE IF Len(B) < Len(A) THEN {"B"} ELSE {"A", "B"}

\* every produced pair is (pose of the short input, one of its nearest counterparts) ...
NB(A, B, off) == [i \in 1..Len(A) |-> NearestB(A, B, off, i)]      \* evaluated once per verdict (LET in Verdict)
NA(A, B, off) == [j \in 1..Len(B) |-> NearestA(A, B, off, j)]
PairsAreNearest(nb, na, ia, ib, side) ==
  \A k \in 1..Len(ia) : IF side = "A" THEN ib[k] \in nb[ia[k]] ELSE ia[k] \in na[ib[k]]

\* ... and every short-side pose whose nearest counterpart is within max_diff and is not
\* contested by another short-side pose is paired.
\* owners[x]: how many short-side poses have x among their nearest counterparts
Owners(near, nlong) == [x \in 1..nlong |-> Cardinality({s \in DOMAIN near : x \in near[s]})]
MandatoryPaired(A, B, md, off, nb, na, ia, ib, side) ==
  LET near == IF side = "A" THEN nb ELSE na
      nlong == IF side = "A" THEN Len(B) ELSE Len(A)
      own == Owners(near, nlong)
      used == IF side = "A" THEN Range(ia) ELSE Range(ib)
      within(s) == \E x \in near[s] : (IF side = "A" THEN Dist(A, B, off, s, x) ELSE Dist(A, B, off, x, s)) <= md
  IN \A s \in DOMAIN near : (within(s) /\ \A x \in near[s] : own[x] = 1) => s \in used

\* o: observed outcome
\*   [kind |-> "raise", exc |-> "SyncException"]
\*   [kind |-> "ok", a |-> Seq(<<stampIdx, poseIdx>>), b |-> ..., unchanged |-> BOOLEAN]
\* index 0 = "not a row of the input" (alpha could not attribute the value)
Col(rows, c) == [k \in DOMAIN rows |-> rows[k][c]]

Verdict(A, B, md, off, o) ==
  IF o.kind = "raise" THEN
     IF o.exc # "SyncException" THEN "WrongException"
     ELSE IF AnyWithin(A, B, md, off) THEN "RaisedThoughMatchesExist"
     ELSE IF ~o.unchanged THEN "InputsModified"
     ELSE "ok"
  ELSE IF o.kind # "ok" THEN "UnknownOutcome"
  ELSE LET ia == Col(o.a, 1)  ib == Col(o.b, 1)  nb == NB(A, B, off)  na == NA(A, B, off) IN
     IF Len(o.a) # Len(o.b) THEN "UnequalLengths"
     ELSE IF Len(o.a) = 0 THEN "EmptyResultInsteadOfError"
     ELSE IF \E k \in DOMAIN o.a : o.a[k][1] = 0 \/ o.b[k][1] = 0 THEN "StampNotFromInput"
     ELSE IF \E k \in DOMAIN o.a : o.a[k][1] # o.a[k][2] \/ o.b[k][1] # o.b[k][2] THEN "PoseAndStampSeparated"
     ELSE IF ~(StrictlyInc(ia) /\ StrictlyInc(ib)) THEN "NotIncreasingOrPoseUsedTwice"
     ELSE IF \E k \in DOMAIN ia : Dist(A, B, off, ia[k], ib[k]) > md THEN "PairBeyondMaxDiff"
     ELSE IF ~o.unchanged THEN "InputsModified"
     ELSE IF ~\E side \in ShortSides(A, B) : PairsAreNearest(nb, na, ia, ib, side) THEN "NotNearestCounterpart"
     ELSE IF ~\E side \in ShortSides(A, B) :
                 /\ PairsAreNearest(nb, na, ia, ib, side)
                 /\ MandatoryPaired(A, B, md, off, nb, na, ia, ib, side) THEN "MissingMandatoryPair"
     ELSE "ok"
==============================================================================

------------------------------ MODULE SyncProps ------------------------------
(* P for C05: what an execution of evo's time association may look like.      *)
(* Written from the property statement only.  Timestamps are integers in     *)
(* units of a dyadic dt (exact in float64), so "difference = max_diff" is a  *)
(* real boundary.  Ties (two equidistant counterparts, equally long inputs)  *)
(* are left open exactly as the statement leaves them open.                  *)
EXTENDS Integers, Sequences, FiniteSets

Abs(x) == IF x < 0 THEN -x ELSE x
Range(s) == {s[k] : k \in DOMAIN s}
StrictlyInc(s) == \A k \in 1..(Len(s) - 1) : s[k] < s[k + 1]

\* |t1 - (t2 + offset)| for the i-th stamp of the first and the j-th of the second input
Dist(A, B, off, i, j) == Abs(A[i] - (B[j] + off))

NearestB(A, B, off, i) ==      \* nearest counterparts (in B) of A[i]; a set because of ties
  {j \in 1..Len(B) : \A k \in 1..Len(B) : Dist(A, B, off, i, j) <= Dist(A, B, off, i, k)}
NearestA(A, B, off, j) ==
  {i \in 1..Len(A) : \A k \in 1..Len(A) : Dist(A, B, off, i, j) <= Dist(A, B, off, k, j)}

AnyWithin(A, B, md, off) ==
  \E i \in 1..Len(A), j \in 1..Len(B) : Dist(A, B, off, i, j) <= md

\* which input may play "the trajectory with fewer poses" (either one if equally long)
ShortSides(A, B) == IF Len(A) < Len(B) THEN {"A"} ELSE IF Len(B) < Len(A) THEN {"B"} ELSE {"A", "B"}

\* every produced pair is (pose of the short input, one of its nearest counterparts) ...
PairsAreNearest(A, B, off, ia, ib, side) ==
  \A k \in 1..Len(ia) :
     IF side = "A" THEN ib[k] \in NearestB(A, B, off, ia[k])
                   ELSE ia[k] \in NearestA(A, B, off, ib[k])

\* ... and every short-side pose whose nearest counterpart is within max_diff and is not
\* contested by another short-side pose is paired.
Uncontested(A, B, off, side, s) ==
  IF side = "A"
  THEN \A j \in NearestB(A, B, off, s) : \A s2 \in (1..Len(A)) \ {s} : j \notin NearestB(A, B, off, s2)
  ELSE \A i \in NearestA(A, B, off, s) : \A s2 \in (1..Len(B)) \ {s} : i \notin NearestA(A, B, off, s2)
NearestWithin(A, B, md, off, side, s) ==
  IF side = "A" THEN \E j \in NearestB(A, B, off, s) : Dist(A, B, off, s, j) <= md
                ELSE \E i \in NearestA(A, B, off, s) : Dist(A, B, off, i, s) <= md
MandatoryPaired(A, B, md, off, ia, ib, side) ==
  LET n == IF side = "A" THEN Len(A) ELSE Len(B)
      used == IF side = "A" THEN Range(ia) ELSE Range(ib)
  IN \A s \in 1..n :
        (NearestWithin(A, B, md, off, side, s) /\ Uncontested(A, B, off, side, s)) => s \in used

\* o: observed outcome
\*   [kind |-> "raise", exc |-> "SyncException"]
\*   [kind |-> "ok", a |-> Seq(<<stampIdx, poseIdx>>), b |-> ..., unchanged |-> BOOLEAN]
\* index 0 = "not a row of the input" (alpha could not attribute the value)
Col(rows, c) == [k \in DOMAIN rows |-> rows[k][c]]

Verdict(A, B, md, off, o) ==
  IF o.kind = "raise" THEN
     IF o.exc # "SyncException" THEN "WrongException"
     ELSE IF AnyWithin(A, B, md, off) THEN "RaisedThoughMatchesExist"
     ELSE IF ~o.unchanged THEN "InputsModified"
     ELSE "ok"
  ELSE IF o.kind # "ok" THEN "UnknownOutcome"
  ELSE LET ia == Col(o.a, 1)  ib == Col(o.b, 1) IN
     IF Len(o.a) # Len(o.b) THEN "UnequalLengths"
     ELSE IF Len(o.a) = 0 THEN "EmptyResultInsteadOfError"
     ELSE IF \E k \in DOMAIN o.a : o.a[k][1] = 0 \/ o.b[k][1] = 0 THEN "StampNotFromInput"
     ELSE IF \E k \in DOMAIN o.a : o.a[k][1] # o.a[k][2] \/ o.b[k][1] # o.b[k][2] THEN "PoseAndStampSeparated"
     ELSE IF ~(StrictlyInc(ia) /\ StrictlyInc(ib)) THEN "NotIncreasingOrPoseUsedTwice"
     ELSE IF \E k \in DOMAIN ia : Dist(A, B, off, ia[k], ib[k]) > md THEN "PairBeyondMaxDiff"
     ELSE IF ~o.unchanged THEN "InputsModified"
     ELSE IF ~\E side \in ShortSides(A, B) : PairsAreNearest(A, B, off, ia, ib, side) THEN "NotNearestCounterpart"
     ELSE IF ~\E side \in ShortSides(A, B) :
                 /\ PairsAreNearest(A, B, off, ia, ib, side)
                 /\ MandatoryPaired(A, B, md, off, ia, ib, side) THEN "MissingMandatoryPair"
     ELSE "ok"
==============================================================================

----------------------------- MODULE Trace_Sync -----------------------------
(* code -> spec: every recorded call of associate_trajectories (abstracted by *)
(* alpha into stamp/pose indices) is judged by P = SyncProps!Verdict.         *)
EXTENDS SyncProps, TLC, Json, IOUtils
Traces == JsonDeserialize(IOEnv.TRACE_FILE)
VARIABLES tid, verdict
Init == tid \in 1..Len(Traces) /\ verdict = "pending"
Next == /\ verdict = "pending"
        /\ LET t == Traces[tid]
               v == Verdict(t.A, t.B, t.md, t.off, t.o)
           IN /\ verdict' = v
              /\ (v # "ok" => PrintT(<<"REJECT", t.id, v>>))
        /\ UNCHANGED tid
Spec == Init /\ [][Next]_<<tid, verdict>>
==============================================================================

"""Child side of harness/vproc.py: a real evo process whose file-system primitives on ~/.evo
are performed one at a time, each after a token from the scheduler, and reported afterwards.
Nothing in /repo is modified: builtins.open, pathlib.Path.exists/mkdir and os.replace are
wrapped in this process only.  Bytes written to a file reach the disk when it is closed
(Python buffers them); the close of a document >= 32 bytes is performed as two partial writes."""
import builtins
import json
import os
import pathlib
import sys

ctl = os.fdopen(int(os.environ["VPROC_CTL"]), "r")
evt = os.fdopen(int(os.environ["VPROC_EVT"]), "w")
OP = sys.argv[1]
HOME = os.environ["HOME"]
EVO = os.path.join(HOME, ".evo")

from evo import __version__  # noqa: E402  (no file-system access to ~/.evo)
from evo.tools.settings_template import DEFAULT_SETTINGS_DICT  # noqa: E402


def cls(path):
    try:
        path = os.path.abspath(os.fspath(path))
    except TypeError:
        return None
    if path == EVO:
        return "dir"
    if not path.startswith(EVO + os.sep):
        return None
    b = os.path.basename(path)
    if b == "assets_version":
        return "ver"
    if b == "settings.json":
        return "cfg"
    if b.endswith(".tmp"):
        return "tmp"
    return "other"


def classify(c, data):
    if c == "ver":
        return "cur" if data == __version__ else ("empty" if data == "" else "old")
    if data == "":
        return "empty"
    try:
        d = json.loads(data)
    except ValueError:
        return "partial"
    if isinstance(d, dict) and all(k in d for k in DEFAULT_SETTINGS_DICT):
        return "full"
    return "fullold"


def token():
    line = ctl.readline()
    if not line:
        os._exit(99)


def report(op, path, res, **kw):
    d = {"op": op, "path": path, "res": res}
    d.update(kw)
    evt.write(json.dumps(d) + "\n")
    evt.flush()


_open = builtins.open
_exists = pathlib.Path.exists
_mkdir = pathlib.Path.mkdir
_replace = os.replace


class WProxy:
    def __init__(self, f, c):
        self._f, self._c, self._buf, self._closed = f, c, [], False

    def write(self, data):
        self._buf.append(data)
        return len(data)

    def truncate(self, size=None):
        token()
        r = self._f.truncate(size)
        self._f.flush()
        report("truncate", self._c, "ok")
        return r

    def seek(self, *a):
        return self._f.seek(*a)

    def read(self, *a):
        token()
        data = self._f.read(*a)
        report("read", self._c, classify(self._c, data))
        return data

    def flush(self):
        self._out()

    def _out(self):
        data = "".join(self._buf)
        self._buf = []
        if not data:
            return
        if len(data) < 32:
            token()
            self._f.write(data)
            self._f.flush()
            report("write", self._c, "2")
        else:
            h = len(data) // 2
            token()
            self._f.write(data[:h])
            self._f.flush()
            report("write", self._c, "1")
            token()
            self._f.write(data[h:])
            self._f.flush()
            report("write", self._c, "2")

    def close(self):
        if not self._closed:
            self._closed = True
            self._out()
            self._f.close()

    def __enter__(self):
        return self

    def __exit__(self, *a):
        self.close()

    def __getattr__(self, name):            # fileno(), name, mode, ... of the wrapped file
        return getattr(self._f, name)

    def __del__(self):
        try:
            self.close()
        except Exception:
            pass


class BProxy(WProxy):
    """binary-mode writer on one of the watched files (e.g. shutil.copyfile when a rename across file systems falls back to copying)"""

    def write(self, data):
        self._buf.append(bytes(data))
        return len(data)

    def fileno(self):
        raise OSError("no fast copy through the stepping proxy")

    def _out(self):
        data = b"".join(self._buf)
        self._buf = []
        if not data:
            return
        h = len(data) // 2 if len(data) >= 32 else len(data)
        for part, tag in ((data[:h], "1"), (data[h:], "2")):
            if not part and tag == "1":
                continue
            token()
            self._f.write(part)
            self._f.flush()
            report("write", self._c, tag if len(data) >= 32 else "2")
            if len(data) < 32:
                break


class RProxy:
    def __init__(self, f, c):
        self._f, self._c = f, c

    def read(self, *a):
        token()
        data = self._f.read(*a)
        report("read", self._c, classify(self._c, data))
        return data

    def close(self):
        self._f.close()

    def __enter__(self):
        return self

    def __exit__(self, *a):
        self._f.close()

    def __getattr__(self, name):
        return getattr(self._f, name)


def v_open(file, mode="r", *a, **kw):
    c = cls(file) if isinstance(file, (str, os.PathLike)) else None
    if c == "other":
        return _open(file, mode, *a, **kw)          # lock files, logs, temporaries under other names: not part of the protocol that is stepped
    if c is not None and c != "dir" and "b" in mode and ("w" in mode or "a" in mode or "+" in mode or "x" in mode):
        token()
        try:
            f = _open(file, mode, *a, **kw)
        except OSError as e:
            report("open_w", c, type(e).__name__)
            raise
        report("open_w" if "w" in mode else "open_rw", c, "ok")
        return BProxy(f, c)
    if c is None or c == "dir" or "b" in mode:
        return _open(file, mode, *a, **kw)
    if "w" in mode or "a" in mode or "+" in mode or "x" in mode:
        token()
        try:
            f = _open(file, mode, *a, **kw)
        except OSError as e:
            report("open_w", c, type(e).__name__)
            raise
        report("open_w" if "w" in mode else "open_rw", c, "ok")
        return WProxy(f, c)
    token()
    try:
        f = _open(file, mode, *a, **kw)
    except OSError as e:
        report("open_r", c, type(e).__name__)
        raise
    report("open_r", c, "ok")
    return RProxy(f, c)


def v_exists(self, *a, **kw):
    c = cls(self)
    if c is None:
        return _exists(self, *a, **kw)
    token()
    r = _exists(self, *a, **kw)
    report("exists", c, "T" if r else "F")
    return r


def v_mkdir(self, *a, **kw):
    c = cls(self)
    if c is None:
        return _mkdir(self, *a, **kw)
    token()
    try:
        r = _mkdir(self, *a, **kw)
    except OSError as e:
        report("mkdir", c, type(e).__name__)
        raise
    report("mkdir", c, "ok")
    return r


def v_replace(src, dst, *a, **kw):
    c = cls(dst)
    if c is None:
        return _replace(src, dst, *a, **kw)
    token()
    try:
        r = _replace(src, dst, *a, **kw)
    except OSError as e:
        report("replace", c, type(e).__name__)
        raise
    report("replace", c, "ok")
    return r


builtins.open = v_open
import io  # noqa: E402
io.open = v_open
pathlib.Path.exists = v_exists
pathlib.Path.mkdir = v_mkdir
os.replace = v_replace

try:
    import evo.tools.settings as settings  # the import-time protocol
    keys = "all" if all(k in settings.SETTINGS for k in DEFAULT_SETTINGS_DICT) else "missing"
    if OP != "none":
        token()
        report("edit", "-", OP)
        if OP == "reset":
            settings.reset()
        elif OP == "resetcli":
            import contextlib
            import io
            from evo import main_config
            sys.argv = ["evo_config", "reset", "-y"]
            with contextlib.redirect_stdout(io.StringIO()):
                main_config.main()
        elif OP == "resetsub":
            settings.reset(settings.DEFAULT_PATH, ["plot_linewidth", "plot_usetex"])
        else:
            from evo import main_config
            if OP == "set":
                main_config.set_config(settings.DEFAULT_PATH, ["plot_linewidth", "3", "plot_usetex"])
            elif OP == "merge":
                other = os.path.join(HOME, "other.json")
                with _open(other, "w") as f:
                    f.write('{"plot_linewidth": 7}')
                main_config.merge_json_union(settings.DEFAULT_PATH, other, soft=False)
    token()
    report("exit", "-", "ok", keys=keys)
except BaseException as e:  # noqa: B902
    token()
    report("exit", "-", type(e).__name__, keys="-")
    os._exit(1)
os._exit(0)

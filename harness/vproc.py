"""Scheduler for real evo processes whose FS primitives are stepped one at a time (C19).
World = one scratch HOME; Child = one real `python vproc_child.py <op>` process."""
import json
import os
import select
import shutil
import signal
import subprocess
import sys
import tempfile

import core

CHILD = os.path.join(os.path.dirname(os.path.abspath(__file__)), "vproc_child.py")
PY = sys.executable


OLD_VERSIONS = ["v0.0.1", "v1.9.0", "v1.12.0", "v1.4.2", "v1.30.4", "1.31"]
_OLD_COUNTER = __import__("itertools").count()
_LACK_COUNTER = __import__("itertools").count()


def default_keys_and_version():
    from evo import __version__
    from evo.tools.settings_template import DEFAULT_SETTINGS_DICT
    return dict(DEFAULT_SETTINGS_DICT), __version__


class Child:
    def __init__(self, home, op, tmpdir=None):
        c_r, c_w = os.pipe()   # scheduler -> child tokens
        e_r, e_w = os.pipe()   # child -> scheduler events
        env = dict(os.environ)
        env.update({"HOME": home, "VPROC_CTL": str(c_r), "VPROC_EVT": str(e_w), "PYTHONWARNINGS": "ignore",
                    "PYTHONDONTWRITEBYTECODE": "1"})
        if tmpdir:
            env["TMPDIR"] = tmpdir          # the system temp directory on ANOTHER file system than the home directory
        self.p = subprocess.Popen([PY, CHILD, op], env=env, pass_fds=(c_r, e_w), cwd=home,
                                  stdout=subprocess.DEVNULL, stderr=subprocess.DEVNULL)
        os.close(c_r)
        os.close(e_w)
        self.ctl = os.fdopen(c_w, "w")
        self.evt = os.fdopen(e_r, "r")
        self.alive = True

    def step(self, timeout=60):
        """give one token, return the reported event (dict) or None if the process ended"""
        if not self.alive:
            return None
        try:
            self.ctl.write("go\n")
            self.ctl.flush()
        except (BrokenPipeError, OSError):
            self.alive = False
            return None
        r, _, _ = select.select([self.evt], [], [], timeout)
        if not r:
            self.kill()
            raise core.MachineryError("stepped evo process did not answer")
        line = self.evt.readline()
        if not line:
            self.alive = False
            self.p.wait()
            return None
        ev = json.loads(line)
        if ev["op"] == "exit":
            self.alive = False
            try:
                self.p.wait(timeout=20)
            except subprocess.TimeoutExpired:
                self.kill()
        return ev

    def kill(self):
        if self.p.poll() is None:
            self.p.send_signal(signal.SIGKILL)
            self.p.wait()
        self.alive = False
        for f in (self.ctl, self.evt):
            try:
                f.close()
            except Exception:
                pass


class World:
    """one HOME directory; scenario prepares its initial content"""

    def __init__(self, scenario, ops):
        self.home = tempfile.mkdtemp(prefix="home_", dir=core.workdir())
        # every other world: the processes' system temp directory is on another file system (tmpfs) than their home directory
        self.tmpdir = None
        if next(_OLD_COUNTER) % 2 == 0 and os.path.isdir("/dev/shm") and os.access("/dev/shm", os.W_OK):
            try:
                self.tmpdir = tempfile.mkdtemp(prefix="vproc_tmp_", dir="/dev/shm")
            except OSError:
                self.tmpdir = None
        self.scenario, self.ops = scenario, ops
        self.defaults, self.version = default_keys_and_version()
        evo = os.path.join(self.home, ".evo")
        if scenario != "fresh":
            os.mkdir(evo)
        if scenario == "upgrade":
            old = dict(self.defaults)
            # which keys the older release lacked rotates: the first three, one whose name is a prefix of another key's name, the last two
            ks = list(old)
            pref = [k for k in ks if any(o != k and o.startswith(k) for o in ks)]
            lacking = [ks[:3], pref[:1] or ks[:1], ks[-2:]][next(_LACK_COUNTER) % 3]
            for k in lacking:
                del old[k]
            old["plot_linewidth"] = 4.5     # a user edit that must survive
            with open(os.path.join(evo, "settings.json"), "w") as f:
                json.dump(old, f, indent=4, sort_keys=True)
            with open(os.path.join(evo, "assets_version"), "w") as f:
                f.write(OLD_VERSIONS[next(_OLD_COUNTER) % len(OLD_VERSIONS)])       # older releases (any string other than the current one)
        elif scenario == "ready":
            with open(os.path.join(evo, "settings.json"), "w") as f:
                json.dump(self.defaults, f, indent=4, sort_keys=True)
            with open(os.path.join(evo, "assets_version"), "w") as f:
                f.write(self.version)
        self.children = {}
        self.events = []

    def observe(self):
        evo = os.path.join(self.home, ".evo")

        def rd(name):
            try:
                with open(os.path.join(evo, name)) as f:
                    return f.read()
            except (FileNotFoundError, NotADirectoryError):
                return None
        v, c = rd("assets_version"), rd("settings.json")
        ver = "absent" if v is None else ("cur" if v == self.version else ("empty" if v == "" else "old"))
        if c is None:
            cfg = "absent"
        elif c == "":
            cfg = "empty"
        else:
            try:
                d = json.loads(c)
                cfg = "full" if isinstance(d, dict) and all(k in d for k in self.defaults) else "fullold"
            except ValueError:
                cfg = "partial"
        return ver, cfg

    def _log(self, pid, ev):
        ver, cfg = self.observe()
        e = {"p": pid, "op": ev["op"], "path": ev.get("path", "-"), "res": ev.get("res", "-"),
             "keys": ev.get("keys", "-"), "ver": ver, "cfg": cfg}
        self.events.append(e)
        return e

    def start(self, pid):
        self.children[pid] = Child(self.home, self.ops.get(pid, "none"), self.tmpdir)
        return self._log(pid, {"op": "start"})

    def step(self, pid):
        ch = self.children.get(pid)
        if ch is None or not ch.alive:
            return None
        ev = ch.step()
        if ev is None:
            return None
        return self._log(pid, ev)

    def crash(self, pid):
        ch = self.children.get(pid)
        if ch is None or not ch.alive:
            return None
        ch.kill()
        return self._log(pid, {"op": "crash"})

    def run_to_end(self, pid, limit=200):
        n = 0
        while self.step(pid) is not None and n < limit:
            n += 1
        return n

    def close(self):
        for ch in self.children.values():
            ch.kill()
        shutil.rmtree(self.home, ignore_errors=True)
        if self.tmpdir:
            shutil.rmtree(self.tmpdir, ignore_errors=True)

    def trace(self, tid):
        ops = {p: ("set" if self.ops.get(p, "none") == "merge" else self.ops.get(p, "none")) for p in ("p1", "p2", "p3")}
        evs = []
        for e in self.events:
            e = dict(e)
            if e["op"] == "edit" and e["res"] == "merge":
                e["res"] = "set"
            evs.append(e)
        return {"id": tid, "scenario": self.scenario, "ops": ops, "ev": evs}

"""C02 RPE values over exactly the selected pairs.  Generator spec/metrics/Metrics.tla (family rpe), P = MetricsProps!RPEVerdict
(pair selection judged by PairsProps on the driving trajectory, values by the definition, end indices aligned with values)."""
import core
import metricsexec
from drivers import metrics_common as mc


def run(rep, tier, seed):
    cases = mc.gen(rep, ["MC_metrics_rpe.cfg", "MC_metrics_rpe4light.cfg"] if tier == "quick" else ["MC_metrics_rpe_thorough.cfg"])
    # sequences of different length must be refused (either one longer), for every relation / unit
    extra = []
    for k, c in enumerate(cases):
        if k % 9 == 0 and len(c["ref"]) >= 2 and len(c["est"]) >= 2:
            extra.append(dict(c, est=c["est"][:-1]) if (k // 9) % 2 else dict(c, ref=c["ref"][:-1]))
    cases = cases + extra
    import evo.core.metrics  # noqa: F401
    obs = core.pmap(metricsexec.exec_rpe, [(n, c, seed) for n, c in enumerate(cases)], chunksize=200)
    nref = 0
    for c, o in zip(cases, obs):
        if o["out"] == "ok":
            rep.nontriv(c)
            if c["fromref"] and c["drv"] != {}:
                nref += 1
    rep.extra["cases_with_pairs_from_reference"] = nref

    def probes(traces):
        ok = lambda t: t["o"]["out"] == "ok" and len(t["o"]["err"]) >= 2 and t["c"]["rel"] == "trans"  # noqa: E731
        def bump(p):
            p["o"]["err"][0] += 1
        def ids(p):
            p["o"]["ids"] = p["o"]["ids"][:-1]
        def drv(p):
            p["o"]["driver"] = "ref" if p["o"]["driver"] == "est" else "est"
        return mc.probe(traces, ok, bump, "value") + mc.probe(traces, ok, ids, "ids") + mc.probe(traces, ok, drv, "driver")
    mc.judge(rep, cases, obs, probes, lambda c: {"rel": c["rel"], "unit": c["q"]["unit"], "all": c["q"]["all"], "fromref": c["fromref"]}, seed)
    from drivers import c15
    c15.run_metric_pipeline(rep, tier, seed, "rpe")
    rep.rule = ("[file pipeline of evo_rpe: TLC enumerates downsample x reference crop x time offset x alignment mode x n_to_align x projection "
                "x relation x format over a 5-pose reference and a denser 9-pose estimate, expected stored values computed in TLA+ by "
                "PipelineProps] " +"TLC enumerates reference/estimate lattice trajectories with DIFFERENT step patterns (so pairs_from_reference is observable) x "
                "7 pose relations x delta in frames/metres/degrees x consecutive/all_pairs x pairs_from_reference; metrics.RPE is run with a "
                "run-time wrapper recording which trajectory drove the pair selection and the pairs; MetricsProps!RPEVerdict judges the pairs "
                "(PairsProps), one value per pair equal to the definition, end indices aligned with values, zero reference distances dropped "
                "from values AND indices for the ratio relation")
    rep.assumptions = ["poses on O24 x Z^3 with axis-aligned integer steps; point-distance relations only where all straight-line distances are integers",
                       "evo_rpe CLI processing is covered by the pipeline check (C15) only as far as stated there"]


def selftest(rep):
    return True


def replay(rep, path):
    import json
    d = json.load(open(path))["detail"]
    o = metricsexec.exec_rpe((d["n"], d["case"], d["seed"]))
    print("observed:", o)
    rej = core.validate("metrics", "Trace_Metrics", [{"id": "replay", "c": d["case"], "o": o, "_single": True}], workers=2)
    if rej:
        print("VIOLATION property=C02 replay=%s clause=%s" % (path, rej[0][1]))
        return 1
    print("replay accepted by P")
    return 0

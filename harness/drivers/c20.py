"""C20 plots draw the trajectory's own coordinates.  Generator spec/plot/Plot.tla, P = PlotProps via Trace_Plot;
artists are read back from matplotlib (Agg backend)."""
import copy
import re
import warnings

import numpy as np

import core
import geom
import trajexec

BAD = -99999


def _ints(a, u, mult=1):
    out = []
    for row in np.asarray(a, dtype=float).reshape(len(a), -1):
        q = mult * row / u
        r = np.round(q)
        out.append([int(x) if abs(x - y) < 1e-6 else BAD for x, y in zip(r, q)])
    return out


def _label(s):
    m = re.match(r"^\$(\w+)\$ \((.+)\)$", s)
    return [m.group(1), m.group(2)] if m else ["?", s]


def _build(poses, u, stamps, clock, built):
    from evo.core.trajectory import PosePath3D, PoseTrajectory3D
    gm = trajexec.Gamma(u, clock)
    return trajexec.build([(p["r"], p["p"]) for p in poses], stamps if stamps else list(range(len(poses))), built, gm, "traj" if stamps else "path")


def _line(ax, k=0):
    ln = ax.lines[k]
    if hasattr(ln, "get_data_3d"):
        return np.column_stack(ln.get_data_3d())
    return np.column_stack((ln.get_xdata(), ln.get_ydata()))


def _segments(coll):
    if hasattr(coll, "_segments3d"):
        return np.asarray(coll._segments3d)
    return np.asarray(coll.get_segments())


def _offsets(coll):
    if hasattr(coll, "_offsets3d"):
        return np.column_stack([np.asarray(x, dtype=float) for x in coll._offsets3d])
    return np.asarray(coll.get_offsets())


def _line_colls(ax):
    """the line collections of an axis (segments), whatever else was added before or after them"""
    from matplotlib.collections import LineCollection
    return [x for x in ax.collections if isinstance(x, LineCollection)]


def _marker_colls(ax):
    from matplotlib.collections import PathCollection
    return [x for x in ax.collections if isinstance(x, PathCollection)]


def execute(job):
    import matplotlib
    matplotlib.use("Agg")
    import matplotlib.pyplot as plt
    from evo.core.metrics import Unit
    from evo.tools import plot
    n, c, seed = job
    u = [1.0, 0.25, 1024.0][(n + seed) % 3]
    built = "se3" if n % 2 else "pq"
    o = {"out": "ok"}
    try:
        with warnings.catch_warnings():
            warnings.simplefilter("ignore")
            if c["fam"] == "traj":
                mode = plot.PlotMode[c["mode"]]
                unit = Unit(c["unit"])
                uo = u
                if (n // 3) % 2 == 1:
                    # the first trajectory given as INTEGER coordinates (unit 1), the other one on a quarter-unit lattice: every
                    # trajectory is drawn at its own coordinates, whatever the dtype of the other
                    from evo.core.trajectory import PosePath3D
                    u, uo = 1.0, 0.25
                    tr = PosePath3D(positions_xyz=np.array([p["p"] for p in c["traj"]], dtype=np.int64),
                                    orientations_quat_wxyz=np.array([geom.quat_wxyz(geom.rot(p["r"])) for p in c["traj"]]))
                    stamped = False
                else:
                    stamped = (n // 5) % 2 == 1
                    tr = _build(c["traj"], u, list(range(len(c["traj"]))) if stamped else None, geom.Clock(0, 1) if stamped else None, built)
                # with timestamps the two trajectories are matched but not stamped identically (a few milliseconds apart)
                other = _build(c["other"], uo, list(range(len(c["other"]))) if stamped else None, geom.Clock(0.004, 1) if stamped else None, "se3")
                fig = plt.figure(figsize=(2, 2))
                ax = plot.prepare_axis(fig, mode, length_unit=unit)
                plot.traj(ax, mode, tr, plot_start_end_markers=True, label="t")
                labels = [_label(ax.get_xlabel()), _label(ax.get_ylabel())] + ([_label(ax.get_zlabel())] if c["mode"] == "xyz" else [])
                o["labels"] = labels
                o["line"] = _ints(_line(ax), u)
                sc = _marker_colls(ax)
                o["markers"] = [_ints(_offsets(x), u)[0] for x in sc[:2]] if len(sc) >= 2 else []
                fig2 = plt.figure(figsize=(2, 2))
                ax2 = plot.prepare_axis(fig2, mode)
                plot.traj_colormap(ax2, tr, np.arange(tr.num_poses - 1, dtype=float), mode, 0.0, 5.0, fig=fig2)
                seg = _segments(_line_colls(ax2)[0])
                o["segments"] = [[_ints([s[0]], u)[0], _ints([s[1]], u)[0]] for s in seg]
                fig3 = plt.figure(figsize=(2, 2))
                ax3 = plot.prepare_axis(fig3, mode)
                plot.draw_correspondence_edges(ax3, tr, other, mode)
                seg = _segments(_line_colls(ax3)[0])
                o["edges"] = [[_ints([s[0]], u)[0], _ints([s[1]], uo)[0]] for s in seg]
                fig4 = plt.figure(figsize=(2, 2))
                ax4 = plot.prepare_axis(fig4, mode)
                plot.draw_coordinate_axes(ax4, tr, mode, marker_scale=0.5 * c["scale2"] * u)
                o["frames"] = []
                if _line_colls(ax4):
                    seg = _segments(_line_colls(ax4)[0])
                    o["frames"] = [[_ints([s[0]], u, 2)[0], _ints([s[1]], u, 2)[0]] for s in seg]
            elif c["fam"] == "series":
                clock = geom.CLOCKS[(n + seed) % len(geom.CLOCKS)]
                unit = Unit(c["unit"])
                stamps = c["stamps"]
                tr = _build(c["traj"], u, stamps, clock, built)
                start = float(clock.g(c["start"])) if c["start"] else None

                def xs(x):
                    x = np.asarray(x, dtype=float)
                    if not stamps:
                        q = x
                    elif start is None:
                        q = (x - clock.t0) / clock.dt
                    else:
                        q = x / clock.dt
                    return [int(round(v)) if abs(v - round(v)) < 1e-6 else BAD for v in q]
                fig, axarr = plt.subplots(3)
                plot.traj_xyz(axarr, tr, start_timestamp=start, length_unit=unit)
                o["xyz_x"] = [xs(axarr[i].lines[0].get_xdata()) for i in range(3)]
                o["xyz_y"] = [[r[0] for r in _ints(np.asarray(axarr[i].lines[0].get_ydata()).reshape(-1, 1), u)] for i in range(3)]
                o["xyz_labels"] = [_label(axarr[i].get_ylabel()) for i in range(3)]
                xl = axarr[2].get_xlabel()
                o["xlabel"] = "t" if xl == "$t$ (s)" else ("index" if xl == "index" else xl)
                fig2, axarr2 = plt.subplots(3)
                plot.traj_rpy(axarr2, tr, start_timestamp=start)
                o["rpy_x"] = [xs(axarr2[i].lines[0].get_xdata()) for i in range(3)]
                o["rpy_y"] = [[int(round(v)) if abs(v - round(v)) < 1e-6 else BAD for v in np.asarray(axarr2[i].lines[0].get_ydata(), dtype=float)]
                              for i in range(3)]
                # the same object changed afterwards and plotted again: the angles shown are those of the CURRENT poses
                g = geom.O24[8]
                tr.transform(geom.se3(geom.o24_matrix(g), [0.0, 0.0, 0.0]))
                fig2b, axarr2b = plt.subplots(3)
                plot.traj_rpy(axarr2b, tr, start_timestamp=start)
                o["rpy2_g"] = geom.ROT_INDEX[g]
                o["rpy2_y"] = [[int(round(v)) if abs(v - round(v)) < 1e-6 else BAD for v in np.asarray(axarr2b[i].lines[0].get_ydata(), dtype=float)]
                               for i in range(3)]
                tr.transform(geom.se3(geom.o24_matrix(g).T, [0.0, 0.0, 0.0]))       # back
                trp = copy.deepcopy(tr)
                from evo.core.trajectory import Plane
                fig2p, axarr2p = plt.subplots(3)
                plot.traj_rpy(axarr2p, trp, start_timestamp=start)         # plotted once before the projection as well
                trp.project(Plane.XY)
                fig2c, axarr2c = plt.subplots(3)
                plot.traj_rpy(axarr2c, trp, start_timestamp=start)
                o["rpy3_flat"] = bool(all(np.max(np.abs(np.asarray(axarr2c[i].lines[0].get_ydata(), dtype=float))) < 1e-6 for i in (0, 1)))
                o["speed_x"], o["speed_num"], o["speed_den"] = [], [], []
                if stamps:
                    fig3 = plt.figure(figsize=(2, 2))
                    plot.speeds(fig3.gca(), tr, start_timestamp=start)
                    ln = fig3.gca().lines[0]
                    o["speed_x"] = xs(ln.get_xdata())
                    sp = np.asarray(ln.get_ydata(), dtype=float)
                    for k, v in enumerate(sp):
                        dt = stamps[k + 1] - stamps[k]
                        q = v * dt * clock.dt / u
                        o["speed_num"].append(int(round(q)) if abs(q - round(q)) < 1e-6 else BAD)
                        o["speed_den"].append(dt)
            else:
                fig = plt.figure(figsize=(2, 2))
                ax = fig.gca()
                plot.error_array(ax, np.array(c["y"], dtype=float), x_array=np.array(c["x"], dtype=float))
                ln = ax.lines[0]
                o["x"] = [int(v) for v in ln.get_xdata()]
                o["y"] = [int(v) for v in ln.get_ydata()]
    except Exception as e:  # noqa: BLE001
        o = {"out": type(e).__name__ + ": " + str(e)[:100]}
    finally:
        plt.close("all")
    return o


def run(rep, tier, seed):
    r = core.tlc("plot", "Plot", "MC_plot.cfg", workers=4)
    rep.add_tlc(r)
    cases = r.printed_json()
    reps = 1 if tier == "quick" else 4
    jobs = [(n + 5 * k, c, seed + k) for k in range(reps) for n, c in enumerate(cases)]
    import evo.tools.plot  # noqa: F401
    obs = core.pmap(execute, jobs, chunksize=5)
    traces = [{"id": "g%d" % n, "c": j[1], "o": o, "_single": True} for n, (j, o) in enumerate(zip(jobs, obs))]
    for j in jobs:
        rep.nontriv([j[1], j[0] % 3])
    probes = []
    g = next(t for t in traces if t["c"]["fam"] == "traj" and t["o"]["out"] == "ok" and t["c"]["mode"] == "zx")
    p = copy.deepcopy(g)
    p["id"] = "probe.swap"
    p["o"]["line"] = [[b, a] for a, b in p["o"]["line"]]
    probes.append(p)
    p = copy.deepcopy(g)
    p["id"] = "probe.label"
    p["o"]["labels"][0][0] = "x"
    probes.append(p)
    g = next(t for t in traces if t["c"]["fam"] == "series" and t["o"]["out"] == "ok" and t["c"]["stamps"] and t["c"]["start"])
    p = copy.deepcopy(g)
    p["id"] = "probe.time"
    p["o"]["speed_x"] = [x - 1 for x in p["o"]["speed_x"]]
    probes.append(p)
    rejects = core.validate("plot", "Trace_Plot", traces + probes, workers=8)
    rej = {x[0] for x in rejects}
    if any(p["id"] not in rej for p in probes):
        core.probe_fail(rejects, "P accepted corrupted traces")
    rep.extra["probes_rejected"] = len(probes)
    rep.traces = len(traces)
    for tid, clause, _ in rejects:
        if tid.startswith("probe"):
            continue
        n = int(tid[1:])
        c = jobs[n][1]
        rep.violation({"clause": clause, "fam": c["fam"], "mode": c.get("mode", "-"), "unit": c.get("unit", "-")},
                      {"case": c, "observed": obs[n], "n": jobs[n][0], "seed": jobs[n][2]})
    for t in traces[:1] + traces[-5:-4] + traces[-1:]:
        rep.sample({"c": t["c"], "o": t["o"]})
    rep.rule = ("TLC enumerates 7 plot modes x 4 length units x 2 lattice trajectories x marker scale {0, 1/2, 1}, and for the time-series plots "
                "unit x single-axis attitudes x without stamps / two stamp vectors x start time none/given; the real functions (prepare_axis, traj with "
                "start/end markers, traj_colormap, draw_correspondence_edges, draw_coordinate_axes, traj_xyz, traj_rpy, speeds, error_array) are run "
                "under Agg (3 lattice units, both storage modes, 7 clocks) and Line2D/Line3D/LineCollection/PathCollection data and label strings "
                "are read back and judged by PlotProps")
    rep.assumptions = ["roll/pitch/yaw only for rotations about x or z (gimbal-lock attitudes give noise-determined angles)", "2..4-pose trajectories"]


def selftest(rep):
    return True


def replay(rep, path):
    import json
    d = json.load(open(path))["detail"]
    o = execute((d["n"], d["case"], d["seed"]))
    print("observed:", o)
    rej = core.validate("plot", "Trace_Plot", [{"id": "replay", "c": d["case"], "o": o, "_single": True}], workers=2)
    if rej:
        print("VIOLATION property=C20 replay=%s clause=%s" % (path, rej[0][1]))
        return 1
    print("replay accepted by P")
    return 0

"""C03 Umeyama alignment.  M = spec/umeyama/Umeyama.tla (noise-free family, mirrored family with exact optimum m*F,
shape mismatch, exactly degenerate sets), P = UmeyamaProps via Trace_Umeyama; noisy integer sets against the candidate family."""
import copy
import math
import random

import numpy as np

import core
import geom

OFFSETS = [np.zeros(3), np.array([5e5, 5e6, 256.0]), np.array([-3e7, 1e6, 4096.0])]


def _ratvec(v, u):
    out = []
    for x in v:
        f = geom.frac(float(x) / u, 1 << 8, 1e-6)
        out.append(f if f else [99999, 1])
    return out


def execute(job):
    from evo.core import geometry
    n, c, seed = job
    rng = random.Random(seed * 1000003 + n)
    u = [1.0, 0.25, 16.0, 2.0 ** -10, 2.0 ** -13][n % 5]       # also small units: covariance singular values down to ~1e-9
    ox, oy = (OFFSETS[(n // 5) % 3], OFFSETS[(n // 15) % 3]) if u >= 0.25 else (OFFSETS[0], OFFSETS[0])
    x, y = np.array(c["x"], dtype=float), np.array(c["y"], dtype=float)
    if c["kind"] != "shape":
        perm = list(range(len(x)))
        rng.shuffle(perm)
        x, y = x[perm], y[perm]
    X, Y = (u * x + ox).T, (u * y + oy).T
    try:
        r, t, s = geometry.umeyama_alignment(X, Y, c["scale"])
    except geometry.GeometryException:
        return {"out": "GeometryException"}
    except Exception as e:  # noqa: BLE001
        return {"out": type(e).__name__}
    proper = bool(np.all(np.isfinite(r)) and np.max(np.abs(r.T @ r - np.eye(3))) < 1e-7 and abs(np.linalg.det(r) - 1) < 1e-7
                  and s > 0 and (c["scale"] or s == 1.0))
    tcorr = np.asarray(t) - oy + s * (r @ ox)       # remove the common offsets: y = c R x + t  <=>  y' = c R x' + t'
    o = {"out": "ok", "proper": proper, "r": geom.alpha_rot_index(r, 1e-6), "t": _ratvec(tcorr, u),
         "c": geom.frac(float(s), 1 << 8, 1e-7) or [-1, 1]}
    if c["kind"] == "opt":
        N = len(x)
        res_after = (s * (r @ X) + np.asarray(t)[:, None] - Y) / u
        res_before = (X - ox[:, None] - (Y - oy[:, None])) / u
        o["sseAfter64"] = int(math.floor(64 * N * N * float(np.sum(res_after ** 2)) + 1e-4))
        o["sseBefore64"] = int(math.floor(64 * N * N * float(np.sum(res_before ** 2)) + 1e-4)) + 10 ** 8   # not claimed for raw point sets
    return o


def run(rep, tier, seed):
    rng = random.Random(seed)
    r = core.tlc("umeyama", "Umeyama", "MC_umeyama_%s.cfg" % tier, workers=8)
    rep.add_tlc(r)
    cases = r.printed_json()
    rb = core.tlc("umeyama", "Umeyama", "MC_umeyama_bug.cfg", workers=8, expect_ok=False)
    if rb.rc != 12:
        raise core.MachineryError("model without the reflection fix not refuted")
    for n in range(400 if tier == "quick" else 6000):
        N = rng.randint(3, 4)
        x = [[rng.randint(-2, 2) for _ in range(3)] for _ in range(N)]
        g = geom.o24_matrix(geom.O24[rng.randrange(24)])
        mirror = rng.random() < 0.5
        y = []
        for p in x:
            q = g @ np.array(p)
            if mirror:
                q[rng.randrange(3)] *= -1
            y.append([int(q[i]) + rng.choice([0, 0, 0, 1, -1]) for i in range(3)])
        cases.append({"kind": "opt", "x": x, "y": y, "scale": bool(n % 2)})
    import evo.core.geometry  # noqa: F401
    obs = core.pmap(execute, [(n, c, seed) for n, c in enumerate(cases)], chunksize=100)
    traces = []
    for n, (c, o) in enumerate(zip(cases, obs)):
        if c["kind"] == "opt" and o["out"] == "ok":
            o["sseBefore64"] = min(o["sseBefore64"], 2 ** 30)
        traces.append({"id": "u%d" % n, "c": c, "o": o, "_single": True})
        if o["out"] == "ok":
            rep.nontriv(c)
    probes = []
    good = next(t for t in traces if t["c"]["kind"] == "mirrored" and t["o"]["out"] == "ok")
    p = copy.deepcopy(good)
    p["id"] = "probe.improper"
    p["o"]["r"] = p["c"]["m"]
    probes.append(p)
    p = copy.deepcopy(good)
    p["id"] = "probe.notproper"
    p["o"]["proper"] = False
    probes.append(p)
    good = next(t for t in traces if t["c"]["kind"] == "noisefree" and t["c"]["scale"] and t["o"]["out"] == "ok")
    p = copy.deepcopy(good)
    p["id"] = "probe.scale"
    p["o"]["c"] = [p["o"]["c"][0] * 2, p["o"]["c"][1]]
    probes.append(p)
    rejects = core.validate("umeyama", "Trace_Umeyama", traces + probes, workers=8)
    rej = {x[0] for x in rejects}
    if any(p["id"] not in rej for p in probes):
        core.probe_fail(rejects, "P accepted corrupted traces")
    rep.extra["probes_rejected"] = len(probes)
    rep.traces = len(traces)
    for tid, clause, _ in rejects:
        if tid.startswith("probe"):
            continue
        n = int(tid[1:])
        c = cases[n]
        rep.violation({"clause": clause, "kind": c["kind"], "scale": c["scale"]}, {"case": c, "observed": obs[n], "n": n, "seed": seed})
    for t in [traces[0], traces[len(traces) // 2], traces[-1]]:
        rep.sample({"c": t["c"], "o": t["o"]})
    rep.rule = ("TLC enumerates: noise-free family y = s g x + t (3 base sets incl. planar, rotations x 2 translations x scales 1,2,1/2 x "
                "with/without scale), mirrored family y = s m h X + t (centred cross with distinct variances, improper m: all 24), exactly "
                "degenerate sets, unequal sizes; + seeded noisy/mirrored integer sets; each executed by geometry.umeyama_alignment with "
                "permuted points, 3 units and large common offsets (5e5..3e7), results alpha-mapped and judged by UmeyamaProps in TLC")
    rep.assumptions = ["integer point sets; result must be within 1e-6 of the exact lattice rotation / rational scale / translation",
                       "least-squares optimality over all of SO(3) for noisy real data is NOT decided (24-rotation candidate family only)"]


def selftest(rep):
    rb = core.tlc("umeyama", "Umeyama", "MC_umeyama_bug.cfg", workers=8, expect_ok=False)
    return rb.rc == 12


def replay(rep, path):
    import json
    body = json.load(open(path))
    d = body["detail"]
    o = execute((d["n"], d["case"], d["seed"]))
    print("observed:", o)
    rej = core.validate("umeyama", "Trace_Umeyama", [{"id": "replay", "c": d["case"], "o": o, "_single": True}], workers=2)
    if rej:
        print("VIOLATION property=C03 replay=%s clause=%s" % (path, rej[0][1]))
        return 1
    print("replay accepted by P")
    return 0

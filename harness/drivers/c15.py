"""C15 evo_traj processing order (and the file pipelines of evo_ape / evo_rpe used by C01 / C02).  Generator spec/pipeline/Pipeline.tla (option lattice over lattice input files), expected exports
computed by PipelineProps in TLA+; input files by the independent serializer, in-process evo_traj, exports parsed by the independent parser."""
import copy
import json
import math
import os
import shutil
import tempfile

import numpy as np

import cli
import core
import geom
import trajexec


def _quat_xyzw(r):
    q = geom.quat_wxyz(geom.rot(r))
    return [q[1], q[2], q[3], q[0]]


def write_input(path, T, fmt, u, clock):
    poses = T["poses"]
    with open(path, "w") as f:
        if fmt == "kitti":
            for p in poses:
                m = np.column_stack((geom.o24_matrix(geom.rot(p["r"])), u * np.array(p["p"], dtype=float)))
                f.write(" ".join(repr(float(v)) for v in m.flatten()) + "\n")
            return
        if fmt == "euroc":
            f.write("#timestamp [ns],p_x,p_y,p_z,q_w,q_x,q_y,q_z\n")
        for p, s in zip(poses, T["stamps"]):
            t = float(clock.g(s))
            pos = [repr(float(u * v)) for v in p["p"]]
            q = _quat_xyzw(p["r"])
            if fmt == "euroc":
                from fractions import Fraction
                ns = int(Fraction(clock.t0) * 10 ** 9 + Fraction(clock.dt) * 10 ** 9 * s)      # exact integer nanoseconds
                f.write(",".join([str(ns)] + pos + [repr(float(q[3])), repr(float(q[0])), repr(float(q[1])), repr(float(q[2]))]) + "\n")
            else:
                f.write(" ".join([repr(t)] + pos + [repr(float(v)) for v in q]) + "\n")


def write_bag(path, topics, u, clock):
    """ROS1 bag with one geometry_msgs/PoseStamped topic per trajectory (written with evo's own bag writer, whose fidelity is C06's
    business; stamps are dyadic, so whole nanoseconds)"""
    from evo.core.trajectory import PoseTrajectory3D
    from evo.tools import file_interface as fi
    from rosbags.rosbag1 import Writer
    with Writer(path) as wr:
        for item in topics:
            topic, T = item[0], item[1]
            tclock = item[2] if len(item) > 2 else clock
            pos = np.array([[u * v for v in p["p"]] for p in T["poses"]], dtype=float)
            quat = np.array([np.roll(_quat_xyzw(p["r"]), 1) for p in T["poses"]], dtype=float)
            st = np.array([float(tclock.g(s_)) for s_ in T["stamps"]])
            fi.write_bag_trajectory(wr, PoseTrajectory3D(positions_xyz=pos, orientations_quat_wxyz=quat, timestamps=st), topic, frame_id="map")


def parse_export(path, export, u, clock, plane, stamp_tol=0.0):
    """independent parser of the exported TUM / KITTI file -> alpha"""
    rows = [ln.split() for ln in open(path).read().splitlines() if ln.strip() and not ln.startswith("#")]
    poses, stamps, planar = [], [], True
    ax = {"xy": 2, "yz": 0, "xz": 1}.get(plane)
    for r in rows:
        v = [float(x) for x in r]
        if export == "tum":
            st = clock.a(v[0])
            if st is None and stamp_tol:        # EuRoC stamps are integer nanoseconds held in a float64: up to 128 ns off the grid
                qk = (v[0] - clock.t0) / clock.dt
                st = int(round(qk)) if abs(qk - round(qk)) * clock.dt <= stamp_tol else None
            stamps.append(-99999 if st is None else st)
            pos = np.array(v[1:4])
            R = geom.quat_to_matrix([v[7], v[4], v[5], v[6]])
        else:
            m = np.array(v).reshape(3, 4)
            pos, R = m[:, 3], m[:, :3]
        q = pos / u
        rq = np.round(q)
        poses.append({"r": geom.alpha_rot_index(R), "p": [int(x) for x in rq] if np.max(np.abs(q - rq)) < 1e-6 else list(trajexec.OFF)})
        if ax is not None and not (pos[ax] == 0 and trajexec.geom_about_axis(R, ax, 1e-7)):
            planar = False
    return {"poses": poses, "stamps": stamps, "planar": planar}


def execute(job):
    n, c, seed = job
    u = [1.0, 0.25][(n + seed) % 2]
    clock = [geom.Clock(0, 1), geom.Clock(0, 0.125), geom.Clock(1.5e9, 0.125), geom.Clock(-1, 0.5)][(n // 2 + seed) % 4]
    if c["fmt"] == "euroc":
        clock = geom.Clock(1.4e9, 0.125)
    q = c["q"]
    d = tempfile.mkdtemp(prefix="tj_", dir=core.workdir())
    try:
        bag = c["fmt"] == "bag"
        if bag:
            clock = [geom.Clock(1.5e9, 0.125), geom.Clock(4096, 0.5)][(n + seed) % 2]            # ROS times are not negative (some stamps of the cases are)
        ext = {"tum": ".txt", "euroc": ".csv", "kitti": ".kitti.txt", "bag": ""}[c["fmt"]]
        # every other TUM / bag case: the estimates' stamps are a quarter tick later than the reference's, and --t_max_diff is exactly
        # that quarter tick (a difference equal to max_diff still associates)
        eclock = geom.Clock(clock.t0 + 0.25 * clock.dt, clock.dt) if c["fmt"] in ("tum", "bag") and (n // 5) % 2 else clock
        names = []
        # surroundings (sixth seeded round): every other case the estimates' names END with the reference's name (est0_gt.txt / gt.txt),
        # and every third pair of cases the inputs lie in a sub-directory - the exports still go to the working directory under the stem
        tail = "_gt" if n % 2 and not bag else ""
        sub = "data/" if (n // 2) % 3 == 0 and not bag else ""
        if sub:
            os.makedirs(os.path.join(d, "data"), exist_ok=True)
        for k, T in enumerate(c["trajs"]):
            nm = "est%d%s%s" % (k, tail, ext)
            if not bag:
                write_input(os.path.join(d, sub + nm), T, c["fmt"], u, eclock)
            names.append(nm)
        if bag:
            with_ref = [("/gt", c["ref"], clock)] if c["useref"] else []
            write_bag(os.path.join(d, "in.bag"), [("/" + nm, T, eclock) for nm, T in zip(names, c["trajs"])] + with_ref, u, clock)
            argv = ["bag", "in.bag"] + ["/" + nm for nm in names]
            if c["useref"]:
                argv += ["--ref", "/gt"]
        else:
            argv = [c["fmt"]] + [sub + nm for nm in names]
            if c["useref"]:
                write_input(os.path.join(d, sub + "gt" + ext), c["ref"], c["fmt"], u, clock)
                argv += ["--ref", sub + "gt" + ext]
        if q["down"]:
            argv += ["--downsample", str(q["down"])]
        if q["mf"]:
            argv += ["--motion_filter", repr(0.5 * (q["mf"] % 10000) * u), "100" if q["mf"] == 2001 or q["mf"] >= 10000 else "1000"]
        if q["merge"]:
            argv += ["--merge"]
        if q["toff"]:
            argv += ["--t_offset", repr(q["toff"] * clock.dt)]
        argv += {"none": [], "sync": ["--sync"], "rigid": ["-a"], "sim": ["-a", "-s"], "scale": ["-s"], "origin": ["--align_origin"],
                 "scaleorigin": ["-s", "--align_origin"]}[q["mode"]]
        argv += ["--t_max_diff", repr(0.25 * clock.dt)]
        if q["tf"] != "none":
            m = np.eye(4)
            m[:3, :3] = q["s"] * geom.o24_matrix(geom.rot(q["g"]["r"]))
            m[:3, 3] = u * np.array(q["g"]["p"], dtype=float)
            enc = n % 3
            if enc == 0:
                tfile = "tf.npy"
                np.save(os.path.join(d, tfile), m)
            elif enc == 1:
                tfile = "tf.txt"
                np.savetxt(os.path.join(d, tfile), m)
            else:
                tfile = "tf.json"
                qq = _quat_xyzw(q["g"]["r"])
                data = {"x": m[0, 3], "y": m[1, 3], "z": m[2, 3], "qx": qq[0], "qy": qq[1], "qz": qq[2], "qw": qq[3]}
                if q["s"] != 1:
                    data["scale"] = q["s"]
                json.dump(data, open(os.path.join(d, tfile), "w"))
            argv += ["--transform_" + q["tf"], tfile]
            if q["inv"]:
                argv += ["--invert_transform"]
            if q["prop"]:
                argv += ["--propagate_transform"]
        if q["plane"] != "none":
            argv += ["--project_to_plane", q["plane"]]
        argv += ["--save_as_" + c["export"], "--no_warnings"]
        r = cli.run_cli("traj", argv, d)
        if r["code"] != 0 or r["exc"] != "none":
            return {"out": "exit%s %s %s" % (r["code"], r["exc"], r["out"][-150:]), "est": [], "ref": [], "argv": argv}
        suffix = "." + c["export"]
        stems = ["merged_trajectory"] if q["merge"] else [nm if bag else os.path.splitext(nm)[0] if c["fmt"] != "kitti" else nm[:-4] for nm in names]
        est = []
        for st in stems:
            p = os.path.join(d, st + suffix)
            if not os.path.exists(p):
                return {"out": "missing export " + st + suffix, "est": [], "ref": [], "argv": argv}
            est.append(parse_export(p, c["export"], u, eclock, q["plane"], 1e-6 if c["fmt"] == "euroc" else 0.0))
        ref = []
        if c["useref"]:
            stem = "gt" if c["fmt"] != "kitti" else "gt.kitti"
            p = os.path.join(d, stem + suffix)
            if os.path.exists(p):
                ref.append(parse_export(p, c["export"], u, clock, q["plane"], 1e-6 if c["fmt"] == "euroc" else 0.0))
        return {"out": "ok", "est": est, "ref": ref, "argv": argv}
    finally:
        shutil.rmtree(d, ignore_errors=True)


def run(rep, tier, seed):
    r = core.tlc("pipeline", "Pipeline", "MC_pipeline_%s.cfg" % tier, workers=8)
    rep.add_tlc(r)
    cases = r.printed_json()
    if len(cases) < 50:
        raise core.MachineryError("pipeline generator produced %d cases" % len(cases))
    import evo.main_traj  # noqa: F401
    warm = cli.run_cli("traj", ["--help"], core.workdir())
    obs = core.pmap(execute, [(n, c, seed) for n, c in enumerate(cases)], chunksize=10)
    traces = []
    for n, (c, o) in enumerate(zip(cases, obs)):
        traces.append({"id": "t%d" % n, "c": c, "o": {k: v for k, v in o.items() if k != "argv"}, "_single": True})
        rep.nontriv([c["q"], c["fmt"], c["export"], c["useref"], len(c["trajs"])])
    probes = []
    g = next(t for t in traces if t["o"]["out"] == "ok" and t["c"]["q"]["tf"] == "left")
    p = copy.deepcopy(g)
    p["id"] = "probe.pos"
    p["o"]["est"][0]["poses"][0]["p"][0] += 1
    probes.append(p)
    g = next((t for t in traces if t["o"]["out"] == "ok" and t["c"]["useref"] and t["o"]["ref"]), None)
    if g is not None:
        p = copy.deepcopy(g)
        p["id"] = "probe.ref"
        p["o"]["ref"][0]["poses"] = p["o"]["ref"][0]["poses"][:-1]
        probes.append(p)
    rejects = core.validate("pipeline", "Trace_Pipeline", traces + probes, workers=8)
    rej = {x[0] for x in rejects}
    if g is None:       # no run exported its reference: only possible on a tree whose traces P rejects
        core.probe_fail(rejects, "no trace to make the reference probe from")
    if any(p["id"] not in rej for p in probes):
        core.probe_fail(rejects, "P accepted corrupted traces")
    rep.extra["probes_rejected"] = len(probes)
    rep.traces = len(traces)
    for tid, clause, _ in rejects:
        if tid.startswith("probe"):
            continue
        n = int(tid[1:])
        c = cases[n]
        rep.violation({"clause": clause, "mode": c["q"]["mode"], "tf": c["q"]["tf"], "inv": c["q"]["inv"], "s": c["q"]["s"], "fmt": c["fmt"]},
                      {"options": c["q"], "fmt": c["fmt"], "export": c["export"], "useref": c["useref"], "ntraj": len(c["trajs"]),
                       "argv": obs[n].get("argv"), "observed": {k: v for k, v in obs[n].items() if k != "argv"}, "n": n})
    for t in traces[:1] + traces[len(traces) // 2:len(traces) // 2 + 1]:
        rep.sample({"options": t["c"]["q"], "fmt": t["c"]["fmt"], "export": t["c"]["export"], "observed": t["o"]})
    rep.exhaustive = (tier == "thorough")
    rep.rule = ("TLC enumerates the admissible option lattice of evo_traj (1-2 trajectories, optional reference, downsample, motion filter, merge, "
                "time offset, sync / similarity / scale-only / origin / scale+origin alignment, left/right/propagated/inverted SE(3) and Sim(3) "
                "transformation files in npy/txt/json form, plane projection, TUM/EuRoC/KITTI input, TUM/KITTI export): thorough = all %s, "
                "quick = a deterministic 1-in-37 sample; expected exports are computed in TLA+ (PipelineProps); real runs of the in-process CLI on "
                "files written by the independent serializer; exports parsed by the independent parser")
    rep.assumptions = ["inputs: an exact similarity image of a 4-pose reference (plus one unmatched pose), a second disjoint trajectory; "
                       "orientation after projecting non-planar poses is not compared; rigid alignment of differently scaled inputs not generated"]


def selftest(rep):
    return True


def replay(rep, path):
    d = json.load(open(path))["detail"]
    print(json.dumps(d)[:3000])
    return 0


# ---------------------------------------------------------------------------------------------- evo_ape / evo_rpe file pipelines
RELARG = {"trans": "trans_part", "deg": "angle_deg", "full": "full", "rotpart": "rot_part", "pdist": "point_distance"}


def execute_metric(job):
    import io
    import zipfile
    n, c, seed = job
    q = c["q"]
    u = 1.0 if q["rel"] == "full" else [1.0, 0.25][(n + seed) % 2]
    clock = geom.Clock(1.4e9, 0.125) if c["fmt"] == "euroc" else [geom.Clock(0, 1), geom.Clock(0, 0.125), geom.Clock(1.5e9, 0.125)][(n + seed) % 3]
    d = tempfile.mkdtemp(prefix="pm_", dir=core.workdir())
    # every other TUM / bag case: the estimate's stamps are a quarter tick later, --t_max_diff is exactly a quarter tick
    eclock = geom.Clock(clock.t0 + 0.25 * clock.dt, clock.dt) if c["fmt"] == "tum" and (n // 5) % 2 else clock
    try:
        kitti = c["fmt"] == "kitti"
        if c["fmt"] == "bag":
            clock = [geom.Clock(1.5e9, 0.125), geom.Clock(4096, 0.5)][(n + seed) % 2]
            eclock = geom.Clock(clock.t0 + 0.25 * clock.dt, clock.dt) if (n // 5) % 2 else clock
            write_bag(os.path.join(d, "in.bag"), [("/gt", c["ref"], clock), ("/est", c["est"], eclock)], u, clock)
            argv = ["bag", "in.bag", "/gt", "/est"]
        elif kitti:
            write_input(os.path.join(d, "gt.txt"), c["ref"], "kitti", u, clock)
            write_input(os.path.join(d, "est.txt"), c["est"], "kitti", u, clock)
            argv = ["kitti", "gt.txt", "est.txt"]
        elif c["fmt"] == "euroc":
            write_input(os.path.join(d, "gt.csv"), c["ref"], "euroc", u, clock)
            argv = ["euroc", "gt.csv", "est.txt"]
        else:
            write_input(os.path.join(d, "gt.txt"), c["ref"], "tum", u, clock)
            argv = ["tum", "gt.txt", "est.txt"]
        if not kitti and c["fmt"] != "bag":
            write_input(os.path.join(d, "est.txt"), c["est"], "tum", u, eclock)
        argv += ["-r", RELARG[q["rel"]]]
        if q["down"]:
            argv += ["--downsample", str(q["down"])]
        # EuRoC stamps are integer nanoseconds held in a float64 (up to 128 ns off the dyadic grid): keep crop bounds off the stamps there;
        # for TUM the bound is exactly a stamp (inclusive on both sides)
        slack = 0.25 * clock.dt if c["fmt"] == "euroc" else 0.0
        if q["mf"]:
            argv += ["--motion_filter", repr(0.5 * (q["mf"] % 10000) * u), "100" if q["mf"] == 2001 or q["mf"] >= 10000 else "1000"]
        if q["lo"] != -1000:
            argv += ["--t_start", repr(float(clock.g(q["lo"])) - slack)]
        if q["hi"] != 1000:
            argv += ["--t_end", repr(float(clock.g(q["hi"])) + slack)]
        if not kitti:
            argv += ["--t_max_diff", repr(0.25 * clock.dt)]
        if q["off"]:
            argv += ["--t_offset", repr(q["off"] * clock.dt)]
        argv += {"none": [], "sim": ["-a", "-s"], "scale": ["-s"], "origin": ["--align_origin"], "scaleorigin": ["-s", "--align_origin"]}[q["mode"]]
        if q["nalign"]:
            argv += ["--n_to_align", str(q["nalign"])]
        if q["plane"] != "none":
            argv += ["--project_to_plane", q["plane"]]
        if c["tool"] == "rpe":
            if q["dunit"] == "m":
                argv += ["--delta", repr(0.5 * q["delta"] * u), "--delta_unit", "m"] + (["--pairs_from_reference"] if q["fromref"] else [])
            elif q["dunit"] in ("d", "r"):
                argv += ["--delta", repr(float(q["delta"])) if q["dunit"] == "d" else repr(math.radians(q["delta"])), "--delta_unit", q["dunit"]]
                argv += (["--pairs_from_reference"] if q["fromref"] else []) + (["--all_pairs"] if q["allpairs"] else [])
            else:
                argv += ["--delta", str(q["delta"]), "--delta_unit", "f"] + (["--all_pairs"] if q["allpairs"] else [])
        cu = bool(q.get("cu"))
        if cu:
            argv += ["--change_unit", "mm" if q["rel"] == "trans" else "rad"]
        argv += ["--save_results", "out.zip", "--no_warnings"]
        from evo.tools.settings import SETTINGS
        old_zip = SETTINGS["save_traj_in_zip"]
        if kitti:       # no stamps in the result: the remaining poses are identified through the reference stored in the archive
            dict.__setitem__(SETTINGS, "save_traj_in_zip", True)
        try:
            r = cli.run_cli(c["tool"], argv, d)
        finally:
            dict.__setitem__(SETTINGS, "save_traj_in_zip", old_zip)
        if r["code"] != 0 or r["exc"] != "none" or not os.path.exists(os.path.join(d, "out.zip")):
            return {"out": "exit%s %s %s" % (r["code"], r["exc"], r["out"][-160:]), "err": [], "ts": [], "argv": argv}
        with zipfile.ZipFile(os.path.join(d, "out.zip")) as z:     # independent reader of the archive
            err = np.load(io.BytesIO(z.read("error_array.npy")))
            if kitti:
                name = next((nm for nm in z.namelist() if nm.startswith("gt.txt")), None)
                rows = [] if name is None else [[float(x) for x in ln.split()] for ln in z.read(name).decode().splitlines() if ln.strip()]
                refpos = [np.array(p["p"], dtype=float) * u for p in c["ref"]["poses"]]
                idx = []
                for row in rows:            # the stored reference holds poses of the input reference (its positions are distinct;
                    pos = np.array([row[3], row[7], row[11]])       # with all_pairs a pose may be stored several times): recover the indices
                    idx.append(next((k for k in range(len(refpos)) if np.max(np.abs(refpos[k] - pos)) < 1e-9 * max(1.0, u)), None))
                if c["tool"] == "rpe":
                    idx = idx[1:]           # the first stored pose is the start of the first pair
                ts = None
            else:
                ts = np.load(io.BytesIO(z.read("timestamps.npy")))
        vals = []
        for v in err:
            v = float(v)
            if cu:                    # back to the native unit: the stored values are in mm / rad
                v = v / 1000.0 if q["rel"] == "trans" else math.degrees(v)
            if q["rel"] == "trans":
                vals.append(trajexec.sq_units(v, u))
            elif q["rel"] == "deg":
                vals.append(int(round(v)) if abs(v - round(v)) < 1e-7 else -1)
            elif q["rel"] == "pdist":
                vals.append(int(round(v / u)) if abs(v / u - round(v / u)) < 1e-6 else -1)
            else:
                vals.append(int(round(v * v)) if abs(v * v - round(v * v)) < 1e-6 * max(1.0, v * v) else -1)
        stamps = []
        if kitti:
            stamps = [-99999 if k is None else c["ref"]["stamps"][k] for k in idx]
        for t in ([] if kitti else ts):
            k = eclock.a(float(t))
            if k is None and c["fmt"] == "euroc":
                qk = (float(t) - clock.t0) / clock.dt
                k = int(round(qk)) if abs(qk - round(qk)) * clock.dt <= 1e-6 else None
            stamps.append(-99999 if k is None else k)
        return {"out": "ok", "err": vals, "ts": stamps, "argv": argv}
    finally:
        shutil.rmtree(d, ignore_errors=True)


def run_metric_pipeline(rep, tier, seed, tool):
    """shared by c01 (evo_ape) and c02 (evo_rpe): the file pipeline cases of PipelineMetric.tla"""
    r = core.tlc("pipeline", "PipelineMetric", "MC_pipemetric_%s.cfg" % tier, workers=8)
    rep.add_tlc(r)
    cases = [c for c in r.printed_json() if c["tool"] == tool]
    if len(cases) < 20:
        raise core.MachineryError("pipeline generator produced %d %s cases" % (len(cases), tool))
    import evo.main_ape  # noqa: F401
    import evo.main_rpe  # noqa: F401
    cli.run_cli(tool, ["--help"], core.workdir())
    obs = core.pmap(execute_metric, [(n, c, seed) for n, c in enumerate(cases)], chunksize=10)
    traces = [{"id": "pm%d" % n, "c": c, "o": {k: v for k, v in o.items() if k != "argv"}, "_single": True} for n, (c, o) in enumerate(zip(cases, obs))]
    g = next((t for t in traces if t["o"]["out"] == "ok" and len(t["o"]["err"]) >= 2), None)
    if g is None:
        raise core.MachineryError("no successful %s pipeline run: %s" % (tool, obs[0]))
    p = copy.deepcopy(g)
    p["id"] = "probe.pm"
    p["o"]["err"][0] += 1
    p2 = copy.deepcopy(g)
    p2["id"] = "probe.pmts"
    p2["o"]["ts"] = p2["o"]["ts"][1:]
    rejects = core.validate("pipeline", "Trace_PipelineMetric", traces + [p, p2], workers=8)
    rej = {x[0] for x in rejects}
    if "probe.pm" not in rej or "probe.pmts" not in rej:
        core.probe_fail(rejects, "pipeline P accepted corrupted traces")
    rep.traces += len(traces)
    rep.extra["cli_pipeline_cases"] = len(traces)
    for n, c in enumerate(cases):
        rep.nontriv(["pipeline", c["q"], c["fmt"], c["tool"], len(c["est"]["poses"])])
    for tid, clause, _ in rejects:
        if tid.startswith("probe"):
            continue
        n = int(tid[2:])
        c = cases[n]
        rep.violation({"clause": clause, "fam": "cli-pipeline", "tool": tool, "mode": c["q"]["mode"], "nalign": c["q"]["nalign"], "down": c["q"]["down"],
                       "plane": c["q"]["plane"]},
                      {"options": c["q"], "fmt": c["fmt"], "argv": obs[n].get("argv"), "observed": {k: v for k, v in obs[n].items() if k != "argv"}})
    rep.sample({"cli": traces[0]["c"]["q"], "observed": traces[0]["o"]})

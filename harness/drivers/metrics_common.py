"""shared by c01 / c02 / c12: generate cases from spec/metrics/Metrics.tla, execute, validate with Trace_Metrics"""
import copy

import core


def gen(rep, cfgs):
    cases = []
    for cfg in cfgs:
        r = core.tlc("metrics", "Metrics", cfg, workers=8)
        rep.add_tlc(r)
        cs = r.printed_json()
        rep.extra["m_cases_" + cfg[11:-4]] = len(cs)
        cases += cs
    return cases


def judge(rep, cases, obs, probes_fn, keyfn, seed):
    traces = [{"id": "t%d" % n, "c": c, "o": o, "_single": True} for n, (c, o) in enumerate(zip(cases, obs))]
    probes = probes_fn(traces)
    rejects = core.validate("metrics", "Trace_Metrics", traces + probes, workers=8)
    rej = {x[0] for x in rejects}
    missing = [p["id"] for p in probes if p["id"] not in rej]
    if missing or not probes:
        core.probe_fail(rejects, "P accepted corrupted traces: %s" % missing)
    rep.extra["probes_rejected"] = rep.extra.get("probes_rejected", 0) + len(probes)
    rep.traces += len(traces)
    for tid, clause, _ in rejects:
        if tid.startswith("probe"):
            continue
        n = int(tid[1:])
        rep.violation(dict(keyfn(cases[n]), clause=clause), {"case": cases[n], "observed": obs[n], "n": n, "seed": seed})
    for t in traces[:1] + traces[len(traces) // 2:len(traces) // 2 + 1] + traces[-1:]:
        rep.sample({"c": t["c"], "o": t["o"]})
    return traces


def probe(traces, pred, mutate, name):
    for t in traces:
        if not pred(t):
            continue
        p = copy.deepcopy(t)
        mutate(p)
        if p != t:              # the corruption must change something (rotating [2, 2] does not)
            p["id"] = "probe." + name
            return [p]
    return []

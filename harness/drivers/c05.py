"""C05 time association.  M = spec/sync/Sync.tla (generator + M=>P), P = SyncProps.tla via Trace_Sync."""
import random

import numpy as np

import core
import geom


def _traj(stamps_k, clock, tagbase, built, rots):
    from evo.core.trajectory import PoseTrajectory3D
    n = len(stamps_k)
    pos = np.array([[tagbase + i + 1, 0.25 * (i + 1), -2.0 * (i + 1)] for i in range(n)], dtype=float)
    rs = [rots[(i + tagbase) % len(rots)] for i in range(n)]
    ts = clock.g(list(stamps_k))
    if built == "se3":
        poses = [geom.se3(geom.o24_matrix(r), p) for r, p in zip(rs, pos)]
        return PoseTrajectory3D(poses_se3=poses, timestamps=ts)
    quats = np.array([geom.quat_wxyz(r) for r in rs])
    return PoseTrajectory3D(positions_xyz=pos, orientations_quat_wxyz=quats, timestamps=ts)


def _rows(out, inp_stamps, clock, tagbase, rots):
    """alpha: every output row -> <<index of its stamp in the input, index of its pose in the input>> (0 = none)"""
    rows = []
    lookup = {float(t): i + 1 for i, t in enumerate(clock.g(list(inp_stamps)))}
    n = len(inp_stamps)
    pos = out.positions_xyz
    se3s = out.poses_se3
    quats = out.orientations_quat_wxyz
    consistent = len(pos) == len(se3s) == len(quats) == len(out.timestamps) == out.num_poses
    for k in range(min(len(pos), len(se3s), len(quats), len(out.timestamps))):
        si = lookup.get(float(out.timestamps[k]), 0)
        x = pos[k][0] - tagbase
        pi = int(x) if x == int(x) and 1 <= x <= n else 0
        if pi:
            i = pi - 1
            exp_p = np.array([tagbase + i + 1, 0.25 * (i + 1), -2.0 * (i + 1)])
            exp_r = geom.o24_matrix(rots[(i + tagbase) % len(rots)])
            ok = (np.array_equal(pos[k], exp_p) and np.array_equal(se3s[k][:3, 3], exp_p)
                  and np.max(np.abs(se3s[k][:3, :3] - exp_r)) < 1e-12
                  and np.max(np.abs(geom.quat_to_matrix(quats[k]) - exp_r)) < 1e-12)
            if not ok:
                pi = 0
        rows.append([si, pi if consistent else 0])
    return rows


def _preread(t, what):
    # which representations were read before the call is part of the history (lazy caches)
    if what == "pos":
        _ = t.positions_xyz
    elif what == "quat":
        _ = t.orientations_quat_wxyz
    elif what == "se3":
        _ = t.poses_se3
    elif what == "str":
        _ = str(t)


PREREADS = ["none", "pos", "quat", "se3", "str"]


def _dec_clock():
    c = geom.Clock(0.3, 0.1)       # decimal stamps (not exact in binary): max_diff is then given half a tick larger, so no comparison sits on a boundary
    c.margin = True
    return c


# the shared clocks + nanosecond-sized ticks (a tick is below numpy's default absolute tolerance) + decimal stamps with decimal offsets
CLOCKS5 = geom.CLOCKS + [geom.Clock(0.0, 2.0 ** -30), _dec_clock()]


def execute(case, clock, built, order_rots, pre=("none", "none"), same=False):
    """run the real associate_trajectories on gamma(case); return the alpha-abstracted outcome"""
    from evo.core import sync
    rots = order_rots
    same = bool(same and case["A"] == case["B"])         # one object passed for both parameters (a trajectory against itself, shifted)
    ta = _traj(case["A"], clock, 100, built[0], rots)
    tb = ta if same else _traj(case["B"], clock, 200, built[1], rots)
    _preread(ta, pre[0])
    _preread(tb, pre[1])
    sa, sb = geom.snapshot(ta), geom.snapshot(tb)
    md = clock.dt * (case["md"] + (0.5 if getattr(clock, "margin", False) else 0.0))
    off = clock.dt * case["off"]
    try:
        oa, ob = sync.associate_trajectories(ta, tb, max_diff=md, offset_2=off)
    except sync.SyncException:
        unchanged = geom.same_snapshot(geom.snapshot(ta), sa) and geom.same_snapshot(geom.snapshot(tb), sb)
        return {"kind": "raise", "exc": "SyncException", "unchanged": unchanged}
    except Exception as e:  # any other exception type is an outcome P does not allow
        return {"kind": "raise", "exc": type(e).__name__, "unchanged": True}
    unchanged = geom.same_snapshot(geom.snapshot(ta), sa) and geom.same_snapshot(geom.snapshot(tb), sb)
    o = {"kind": "ok", "a": _rows(oa, case["A"], clock, 100, rots), "b": _rows(ob, case["B"], clock, 100 if same else 200, rots),
         "unchanged": unchanged}
    # mutate the outputs, the inputs must still be unchanged (independence; also C16)
    try:
        oa.scale(2.0)
        ob.timestamps += 1.0
        oa.transform(geom.se3(geom.o24_matrix((2, -1, 3)), [1, 2, 3]))
    except Exception:
        pass
    if not (geom.same_snapshot(geom.snapshot(ta), sa) and geom.same_snapshot(geom.snapshot(tb), sb)):
        o["unchanged"] = False
    return o


def _exec_job(job):
    n, v, c, seed = job
    builts = [("se3", "se3"), ("pq", "pq"), ("se3", "pq"), ("pq", "se3")]
    k = (n + v * 3 + seed) % len(CLOCKS5)
    built = builts[(n + v + seed) % 4]
    rots = geom.O24[(n + seed) % 24:] + geom.O24[:(n + seed) % 24]
    pre = (PREREADS[(n // 4 + v) % 5], PREREADS[(n // 20 + 2 * v) % 5])
    return execute(c, CLOCKS5[k], built, rots, pre, same=(n + v) % 2 == 0), k, built, pre


def random_case(rng, maxn):
    na, nb = rng.randint(1, maxn), rng.randint(1, maxn)
    style = rng.choice(["dense", "jitter", "gaps", "disjoint", "rates"])

    def stamps(n, rate, start):
        out, t = [], start
        for _ in range(n):
            out.append(t)
            if style == "dense":
                t += rng.randint(1, 2)
            elif style == "jitter":
                t += rate + rng.randint(0, 2)
            elif style == "gaps":
                t += rng.choice([1, 1, 1, 2, 25])
            else:
                t += rate
        return out
    ra, rb = (rng.choice([2, 3, 5]), rng.choice([2, 3, 5])) if style in ("rates", "jitter") else (1, 1)
    A = stamps(na, ra, rng.randint(0, 6))
    B = stamps(nb, rb, rng.randint(0, 6) + (10 * maxn if style == "disjoint" and rng.random() < 0.7 else 0))
    return {"A": A, "B": B, "md": rng.choice([0, 1, 1, 2, 3, 6]), "off": rng.choice([-7, -3, -1, 0, 0, 1, 2, 5])}


def run(rep, tier, seed):
    rng = random.Random(seed)
    cfg = "MC_sync_quick.cfg" if tier == "quick" else "MC_sync_thorough.cfg"
    r = core.tlc("sync", "Sync", cfg, workers=8)
    rep.add_tlc(r)
    cases = r.printed_json()
    if len(cases) < 1000:
        raise core.MachineryError("Sync model emitted only %d cases" % len(cases))
    rep.extra["m_cases"] = len(cases)
    builts = [("se3", "se3"), ("pq", "pq"), ("se3", "pq"), ("pq", "se3")]
    traces, by_id = [], {}
    nvar = 1 if tier == "quick" else 2
    import evo.core.sync  # noqa: F401
    jobs = []
    for n, c in enumerate(cases):
        for v in range(nvar):
            jobs.append((n, v, c, seed))
    outs = core.pmap(_exec_job, jobs, chunksize=500)
    for (n, v, c, _), (o, k, built, pre) in zip(jobs, outs):
        if True:
            clock = CLOCKS5[k]
            tid = "m%d.%d" % (n, v)
            t = {"id": tid, "A": c["A"], "B": c["B"], "md": c["md"], "off": c["off"], "o": o}
            traces.append(t)
            by_id[tid] = (c, {"clock": [clock.t0, clock.dt], "built": built, "pre": pre, "same": (n + v) % 2 == 0,
                                 "margin": bool(getattr(clock, "margin", False))}, o)
            mo = dict(c["m"])
            # decimal stamps: |0.3 + 0.1*a - (0.3 + 0.1*b + 0.1*off)| is rounded, so an exact tie of the integer case is broken
            # either way by the floating-point sum (P allows both answers); M's first-minimum rule is compared where sums are exact
            if mo != o and not getattr(clock, "margin", False):
                rep.drifted("associate(%s,%s,md=%d,off=%d): model %s, code %s" % (c["A"], c["B"], c["md"], c["off"], mo, o))
            if o["kind"] == "ok":
                rep.nontriv([c["A"], c["B"], c["md"], c["off"]])
    # larger random constellations (code -> spec only)
    nrand, maxn = (300, 30) if tier == "quick" else (6000, 50)
    for n in range(nrand):
        c = random_case(rng, maxn)
        clock = geom.CLOCKS[n % len(geom.CLOCKS)]
        built = builts[n % 4]
        pre = (PREREADS[n % 5], PREREADS[(n // 5) % 5])
        o = execute(c, clock, built, geom.O24, pre)
        tid = "r%d" % n
        traces.append({"id": tid, "A": c["A"], "B": c["B"], "md": c["md"], "off": c["off"], "o": o})
        by_id[tid] = (c, {"clock": [clock.t0, clock.dt], "built": built, "pre": pre}, o)
        if o["kind"] == "ok":
            rep.nontriv([c["A"], c["B"], c["md"], c["off"]])
    if tier == "thorough":
        for n, (na, nb) in enumerate([(600, 500), (300, 800), (1000, 999)]):
            A = sorted(rng.sample(range(0, 4 * max(na, nb)), na))
            B = sorted(rng.sample(range(0, 4 * max(na, nb)), nb))
            c = {"A": A, "B": B, "md": 1, "off": rng.choice([-1, 0, 2])}
            clock = geom.CLOCKS[3]
            o = execute(c, clock, builts[n], geom.O24)
            tid = "big%d" % n
            traces.append({"id": tid, "A": A, "B": B, "md": c["md"], "off": c["off"], "o": o})
            by_id[tid] = ({"A": "len %d" % na, "B": "len %d" % nb, "md": 1, "off": c["off"]}, {"clock": [clock.t0, clock.dt]}, "omitted")
    # sensitivity: corrupted copies of good traces must be rejected by P (binding is not vacuous)
    probes = _probes(traces)
    rejects = core.validate("sync", "Trace_Sync", traces + probes)
    rejected_ids = {x[0] for x in rejects}
    missing = [p["id"] for p in probes if p["id"] not in rejected_ids]
    if missing or not probes:
        core.probe_fail(rejects, "P accepted corrupted traces: %s" % missing[:5])
    rep.traces = len(traces)
    rep.extra["probes_rejected"] = len(probes)
    for tid, clause, _ in rejects:
        if tid.startswith("probe"):
            continue
        c, g, o = by_id[tid]
        rep.violation({"clause": clause, "lenA": len(c["A"]) if isinstance(c["A"], list) else c["A"],
                       "lenB": len(c["B"]) if isinstance(c["B"], list) else c["B"]},
                      {"case": c, "gamma": g, "observed": o, "trace_id": tid})
    for t in traces[:2] + traces[-2:]:
        rep.sample({k: t[k] for k in ("A", "B", "md", "off", "o")})
    rep.rule = ("cases = every (A,B,max_diff,offset) TLC enumerates from Sync.tla Init (strictly increasing stamp vectors) "
                "+ seeded random constellations; each executed by evo.core.sync.associate_trajectories on gamma(case) "
                "(dyadic clocks incl. epoch 1.5e9, both construction kinds) and judged by SyncProps!Verdict in TLC; "
                "non-trivial = distinct inputs with a non-empty association")
    rep.exhaustive = False
    rep.assumptions = ["timestamps are t0+dt*k with dyadic dt (exact float64); max_diff/offset multiples of dt",
                       "P leaves ties open: equidistant counterparts, equally long inputs, contested counterparts"]


def _probes(traces):
    import copy
    probes = []
    good = [t for t in traces if t["o"]["kind"] == "ok" and len(t["o"]["a"]) >= 2][:3]
    for n, t in enumerate(good):
        p = copy.deepcopy(t)
        p["id"] = "probe.dup%d" % n
        p["o"]["b"][1] = list(p["o"]["b"][0])          # a pose used twice
        probes.append(p)
        p = copy.deepcopy(t)
        p["id"] = "probe.sep%d" % n
        p["o"]["a"][0][1] = p["o"]["a"][0][1] % len(t["A"]) + 1 if len(t["A"]) > 1 else 0  # pose/stamp separated
        probes.append(p)
        p = copy.deepcopy(t)
        p["id"] = "probe.drop%d" % n
        p["o"]["a"] = p["o"]["a"][:-1]                   # unequal lengths
        probes.append(p)
        p = copy.deepcopy(t)
        p["id"] = "probe.mut%d" % n
        p["o"]["unchanged"] = False
        probes.append(p)
    return probes


def selftest(rep):
    r = core.tlc("sync", "Sync", "MC_sync_legacy.cfg", expect_ok=False)
    ok = r.rc == 12 and "MImpliesP" in r.out
    print("legacy model (no de-duplication) refuted by TLC: %s" % ok)
    return ok


def replay(rep, path):
    import json
    body = json.load(open(path))
    d = body["detail"]
    c, g = d["case"], d["gamma"]
    clock = geom.Clock(*g["clock"])
    clock.margin = bool(g.get("margin", False))
    o = execute(c, clock, tuple(g.get("built", ("se3", "se3"))), geom.O24, tuple(g.get("pre", ("none", "none"))), same=g.get("same", False))
    t = {"id": "replay", "A": c["A"], "B": c["B"], "md": c["md"], "off": c["off"], "o": o}
    rej = core.validate("sync", "Trace_Sync", [t])
    print("observed:", o)
    if rej:
        print("VIOLATION property=C05 replay=%s clause=%s" % (path, rej[0][1]))
        return 1
    print("replay accepted by P")
    return 0

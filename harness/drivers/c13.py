"""C13 merging and tabulating results.  M = spec/result/Result.tla, P = ResultProps via Trace_Result;
evo_res tables from result files produced by real evo_ape / evo_rpe runs."""
import copy
import json
import os
import random
import shutil
import tempfile
import zipfile

import numpy as np

import cli
import core
import geom


def _mk(r, scale, ints=False):
    from evo.core.result import Result
    res = Result()
    for k, v in r["stats"]:
        res.stats[k] = scale * float(v)
    for k, a in r["arrays"]:
        # (integer-valued arrays may be handed over with an integer dtype: the element-wise mean is still the mean)
        res.np_arrays[k] = np.array(a, dtype=np.int64) if ints and scale == 1.0 else scale * np.array(a, dtype=float)
    res.info = {"title": "t%d" % r["info"], "est_name": "e%d" % r["info"]}
    return res


def _snap(res):
    return (repr(list(res.info.items())), repr(list(res.stats.items())),
            [(k, np.asarray(v).tobytes(), np.asarray(v).shape) for k, v in res.np_arrays.items()])


def exec_merge(job):
    from evo.core import result
    n, rs, seed = job
    scale = [1.0, 0.25, 8.0][(n + seed) % 3]
    objs = [_mk(r, scale, ints=(n // 3) % 2 == 1) for r in rs]
    before = [_snap(o) for o in objs]
    out = {"out": "ok", "same": False, "stats": [], "arrays": [], "info": 0}
    try:
        m = result.merge_results(objs)
    except result.ResultException:
        return {"out": "ResultException", "unchanged": [_snap(o) for o in objs] == before}
    except Exception as e:  # noqa: BLE001
        return {"out": type(e).__name__, "unchanged": [_snap(o) for o in objs] == before}
    bad = [-1, 1]
    out["same"] = any(m is o for o in objs)
    out["stats"] = [[k, geom.frac(float(v) / scale, 1 << 6, 1e-9) or bad] for k, v in m.stats.items()]
    out["arrays"] = [[k, [geom.frac(float(x) / scale, 1 << 6, 1e-9) or bad for x in np.asarray(a).ravel()]] for k, a in m.np_arrays.items()]
    try:
        out["info"] = int(str(m.info.get("title", "t0"))[1:])
    except ValueError:
        out["info"] = 0
    unchanged = [_snap(o) for o in objs] == before
    if not out["same"]:      # operate on the merged result: the inputs must not notice
        for a in m.np_arrays.values():
            if a.size:
                np.add(a, 1, out=a, casting="unsafe")
        for k in list(m.stats):
            m.stats[k] += 1.0
        m.info["title"] = "changed"
        unchanged = unchanged and [_snap(o) for o in objs] == before
    out["unchanged"] = unchanged
    return out


def table_cases(rep, tier, seed):
    """result files from real evo_ape / evo_rpe runs -> evo_res --save_table"""
    rng = random.Random(seed)
    d = tempfile.mkdtemp(prefix="res_", dir=core.workdir())
    files = []
    for k in range(3):
        n = 8
        cli.write_tum(os.path.join(d, "ref.txt"), range(n), [(i, 0, 0) for i in range(n)])
        cli.write_tum(os.path.join(d, "est%d.txt" % k), range(n), [(i, 0.125 * (k + 1) * i, 0.25 * k) for i in range(n)])
        app = "rpe" if k == 2 else "ape"
        r = cli.run_cli(app, ["tum", "ref.txt", "est%d.txt" % k, "--save_results", "r%d.zip" % k], d)
        if r["code"] != 0 or r["exc"] != "none":
            raise core.MachineryError("could not produce result file: %s" % r)
        files.append("r%d.zip" % k)
    stats = {}
    for f in files:
        with zipfile.ZipFile(os.path.join(d, f)) as z:
            stats[f] = json.loads(z.read("stats.json"))       # independent reader of the archive
    traces = []
    # two results whose estimates have the same file name in different directories -> same label
    os.makedirs(os.path.join(d, "runb"), exist_ok=True)
    cli.write_tum(os.path.join(d, "runb", "est0.txt"), range(8), [(i, 0.5 * i, 1.0) for i in range(8)])
    r = cli.run_cli("ape", ["tum", "ref.txt", "runb/est0.txt", "--save_results", "r3.zip"], d)
    if r["code"] != 0 or r["exc"] != "none":
        raise core.MachineryError("could not produce result file: %s" % r)
    with zipfile.ZipFile(os.path.join(d, "r3.zip")) as z:
        stats["r3.zip"] = json.loads(z.read("stats.json"))
    # a result computed from KITTI files (no timestamps: other companion arrays) next to results from TUM files
    for nm, off in (("kref.txt", 0.0), ("kest.txt", 0.375)):
        with open(os.path.join(d, nm), "w") as f:
            for i in range(8):
                f.write(" ".join(repr(float(v)) for v in [1, 0, 0, i, 0, 1, 0, off * i, 0, 0, 1, 0]) + "\n")
    r = cli.run_cli("ape", ["kitti", "kref.txt", "kest.txt", "--save_results", "r4.zip"], d)
    if r["code"] != 0 or r["exc"] != "none":
        raise core.MachineryError("could not produce result file: %s" % r)
    with zipfile.ZipFile(os.path.join(d, "r4.zip")) as z:
        stats["r4.zip"] = json.loads(z.read("stats.json"))
    # the same file name in two directories: with --use_filenames the labels are the paths as given, and they differ
    shutil.copy(os.path.join(d, "r3.zip"), os.path.join(d, "runb", "r0.zip"))
    stats["runb/r0.zip"] = stats["r3.zip"]
    combos = [(["r0.zip", "r4.zip"], False, False), (["r4.zip", "r1.zip", "r2.zip"], True, False),
              (["r0.zip", "runb/r0.zip"], True, False), (["runb/r0.zip", "r1.zip", "r0.zip"], True, False),
              (["r0.zip", "r3.zip"], False, False), (["r0.zip", "r1.zip"], False, False), (["r1.zip", "r0.zip"], True, False), (["r0.zip", "r1.zip"], False, True),
              (["r1.zip", "r0.zip"], False, True), (["r0.zip"], False, False), (["r0.zip", "r1.zip", "r1.zip"], True, True),
              (["r2.zip", "r0.zip"], True, False)]
    # ... and finally a result file that was rewritten since an earlier run of this process read it: the table shows the new content
    combos += [("rewrite", None, None), (["r0.zip", "r2.zip"], True, False), (["r0.zip", "r1.zip"], True, True)]
    import pandas as pd
    est_label = {"r4.zip": "kest.txt", "r0.zip": "est0.txt", "r1.zip": "est1.txt", "r2.zip": "est2.txt", "r3.zip": "est0.txt", "runb/r0.zip": "est0.txt"}
    # the same result files under other names (upper-case extension, no extension and a blank, a second suffix): rows and labels as before
    for src, name in (("r1.zip", "res one"), ("r2.zip", "R2.ZIP"), ("r4.zip", "r4.zip.bak")):
        shutil.copy(os.path.join(d, src), os.path.join(d, name))
        stats[name], est_label[name] = stats[src], est_label[src]
    combos += [(["r0.zip", "res one", "R2.ZIP"], False, False), (["res one", "r4.zip.bak", "r2.zip"], True, False), (["R2.ZIP", "res one"], True, False)]
    for n, (fs, usefn, merge) in enumerate(combos):
        if fs == "rewrite":
            shutil.copy(os.path.join(d, "r1.zip"), os.path.join(d, "r0.zip"))
            stats["r0.zip"] = stats["r1.zip"]
            est_label["r0.zip"] = est_label["r1.zip"]
            continue
        out = os.path.join(d, "table%d.csv" % n)
        argv = fs + ["--save_table", "table%d.csv" % n, "--no_warnings", "--ignore_title"] + (["--use_filenames"] if usefn else []) + (["--merge"] if merge else [])
        if n % 3 == 1:          # options before the files
            argv = argv[len(fs):] + fs
        r = cli.run_cli("res", argv, d)
        if merge:
            labels = [est_label[fs[0]]]       # info of the first result -> label of the merged column
            want = {labels[0]: {k: float(np.mean([stats[f][k] for f in fs])) for k in stats[fs[0]]}}
        elif usefn:
            labels = list(fs)
            want = {f: stats[f] for f in fs}
        else:
            lab = lambda f: est_label[f]  # noqa: E731
            labels = [lab(f) for f in fs]
            want = {lab(f): stats[f] for f in fs}
        o = {"out": "ok", "labels": [], "cells_ok": False, "keys_ok": False}
        if r["code"] != 0 or r["exc"] != "none" or not os.path.exists(out):
            o["out"] = "exit%s:%s" % (r["code"], r["exc"])
        else:
            df = pd.read_csv(out, index_col=0, float_precision="round_trip")
            if not set(labels) <= set(map(str, df.columns)):
                df = df.T
            o["labels"] = [str(c) for c in df.columns]
            keys_ok, cells_ok = True, True
            for lab in o["labels"]:
                if lab not in want:
                    continue
                col = {str(k): float(v) for k, v in df[lab].items() if isinstance(v, (int, float)) and v == v}   # blank cells are not statistics
                if set(col) != set(want[lab]):
                    keys_ok = False
                for k, v in want[lab].items():
                    if k in col and not (col[k] == v or (merge and abs(col[k] - v) <= 1e-15 * max(1.0, abs(v)))):
                        cells_ok = False
            o["keys_ok"], o["cells_ok"] = keys_ok, cells_ok
        traces.append({"id": "tab%d" % n, "what": "table", "c": {"labels": labels, "merge": merge, "dup": len(set(labels)) < len(labels)}, "o": o, "_single": True,
                       "argv": argv})
    shutil.rmtree(d, ignore_errors=True)
    return traces


def run(rep, tier, seed):
    r = core.tlc("result", "Result", "MC_result_%s.cfg" % tier, workers=8)
    rep.add_tlc(r)
    cases = r.printed_json()
    r3 = core.tlc("result", "Result", "MC_result_light3.cfg", workers=8)
    rep.add_tlc(r3)
    cases += r3.printed_json()
    rl = core.tlc("result", "Result", "MC_result_legacy.cfg", workers=8, expect_ok=False)
    if rl.rc != 12:
        raise core.MachineryError("order-sensitive merge strategy not refuted")
    rng = random.Random(seed)
    if tier == "thorough" and len(cases) > 60000:
        rng.shuffle(cases)
        cases = cases[:60000]
    # key sets that differ because one of them is EMPTY (also as the first result of the list): refused like any other difference
    for k, c in enumerate(list(cases[:4000])):
        if k % 40 == 0 and len(c) >= 2 and (c[1]["stats"] or c[1]["arrays"]):
            which = "stats" if (k // 40) % 2 and c[1]["stats"] else ("arrays" if c[1]["arrays"] else "stats")
            cases.append([dict(c[0], **{which: []})] + [dict(x) for x in c[1:]])
            cases.append([dict(x) for x in c[:-1]] + [dict(c[-1], **{which: []})])
    # element-wise means that are not integers (the model's values 11, 21, 41, ... average to integers for two results)
    for k, c in enumerate(list(cases[:4000])):
        if k % 15 == 0 and len(c) == 2:
            c2 = [dict(c[0]), dict(c[1], arrays=[[key, [v + 1 for v in a]] for key, a in c[1]["arrays"]],
                                 stats=[[key, v + 1] for key, v in c[1]["stats"]])]
            cases.append(c2)
    import evo.core.result  # noqa: F401
    obs = core.pmap(exec_merge, [(n, c, seed) for n, c in enumerate(cases)], chunksize=200)
    traces = [{"id": "m%d" % n, "what": "merge", "rs": c, "o": o, "_single": True} for n, (c, o) in enumerate(zip(cases, obs))]
    for c, o in zip(cases, obs):
        if o["out"] == "ok" and len(c) >= 2:
            rep.nontriv(c)
    tabs = table_cases(rep, tier, seed)
    for t in tabs:
        rep.nontriv(t["argv"])
    probes = []
    g = next(t for t in traces if t["o"]["out"] == "ok" and len(t["rs"]) == 2 and t["o"]["arrays"] and t["o"]["arrays"][0][1])
    p = copy.deepcopy(g)
    p["id"] = "probe.stat"
    p["o"]["stats"][0][1] = [p["o"]["stats"][0][1][0] + 1, p["o"]["stats"][0][1][1]]
    probes.append(p)
    p = copy.deepcopy(g)
    p["id"] = "probe.mut"
    p["o"]["unchanged"] = False
    probes.append(p)
    p = copy.deepcopy(g)
    p["id"] = "probe.arr"
    p["o"]["arrays"][0][1] = p["o"]["arrays"][0][1][::-1] + [[7, 1]]
    probes.append(p)
    p = copy.deepcopy(next(t for t in tabs if not t["c"]["dup"] and t["o"]["out"] == "ok"))
    p["id"] = "probe.tab"
    p["o"]["labels"] = p["o"]["labels"][:-1] + ["ref.txt"]
    probes.append(p)
    all_tr = [{k: v for k, v in t.items() if k != "argv"} for t in traces + tabs + probes]
    rejects = core.validate("result", "Trace_Result", all_tr, workers=8)
    rej = {x[0] for x in rejects}
    if any(p["id"] not in rej for p in probes):
        core.probe_fail(rejects, "P accepted corrupted traces")
    rep.extra["probes_rejected"] = len(probes)
    rep.traces = len(traces) + len(tabs)
    by = {t["id"]: t for t in traces + tabs}
    for tid, clause, _ in rejects:
        if tid.startswith("probe"):
            continue
        t = by[tid]
        rep.violation({"clause": clause, "what": t["what"], "n": len(t.get("rs", []))},
                      {"case": t.get("rs", t.get("argv")), "observed": t["o"]})
    for t in traces[:1] + traces[-1:] + tabs[:1]:
        rep.sample({k: v for k, v in t.items() if k != "_single"})
    rep.rule = ("TLC enumerates lists of 1..2 (thorough: 3) results with statistic values, array lengths 0..2 (equal, unequal, empty), both "
                "insertion orders of stats and arrays, and one extra/missing key; each merged by result.merge_results (3 magnitudes), inputs "
                "snapshotted before/after and after mutating the merged result; + evo_res tables (labels by est_name / --use_filenames, --merge, "
                "duplicates, APE+RPE mix) from result files written by real evo_ape/evo_rpe runs; judged by ResultProps")
    rep.assumptions = ["when some arrays have equal and others unequal lengths, equal-length arrays may be averaged or concatenated (statement ambiguous)"]


def selftest(rep):
    rl = core.tlc("result", "Result", "MC_result_legacy.cfg", workers=8, expect_ok=False)
    return rl.rc == 12


def replay(rep, path):
    d = json.load(open(path))["detail"]
    if isinstance(d["case"], list) and d["case"] and isinstance(d["case"][0], dict):
        o = exec_merge((0, d["case"], 0))
        print("observed:", o)
        rej = core.validate("result", "Trace_Result", [{"id": "replay", "what": "merge", "rs": d["case"], "o": o, "_single": True}], workers=2)
        if rej:
            print("VIOLATION property=C13 replay=%s clause=%s" % (path, rej[0][1]))
            return 1
        print("replay accepted by P")
        return 0
    print(json.dumps(d)[:2000])
    return 0

"""C16 no mutation of inputs / independence of derived objects.  M = spec/alias/Alias.tla (which arrays objects share;
all histories with <= 4 objects), replayed on real objects with bitwise snapshots of ALL live objects around every step;
P = AliasProps via Trace_Alias."""
import copy
import io
import random

import numpy as np

import core
import geom

STAMPS = [0.0, 1.0, 2.0, 10.0, 11.0, 12.0]
POS = [[0, 0, 0], [1, 1, 0], [2, 0, 1], [50, 2, 0], [51, 0, 2], [52, 1, 0]]
ROTS = [1, 7, 12, 18, 5, 9]


def _initial(built, t0):
    from evo.core.trajectory import PoseTrajectory3D
    pos = np.array(POS, dtype=float)
    if built == "se3":
        return PoseTrajectory3D(poses_se3=[geom.se3(geom.o24_matrix(geom.rot(r)), p) for r, p in zip(ROTS, pos)],
                                timestamps=t0 + np.array(STAMPS))
    return PoseTrajectory3D(positions_xyz=pos, orientations_quat_wxyz=np.array([geom.quat_wxyz(geom.rot(r)) for r in ROTS]),
                            timestamps=t0 + np.array(STAMPS))


def _snap(t):
    return geom.snapshot(t)


def _changed(before, after):
    """ids whose bits changed (a cache appearing or disappearing is not a change of the object's data)"""
    out = []
    for k, b in before.items():
        a = after.get(k)
        if a is None:
            continue
        for key in b:
            if key in a and key != "_n" and a[key] != b[key]:
                out.append(k)
                break
    return sorted(out)


def _compute(what, o, p, t0):
    from evo.core import filters, metrics
    from evo.tools import file_interface, pandas_bridge
    if what in ("APE", "RPE"):
        if o.num_poses != p.num_poses:
            return
        if what == "APE":
            for rel in (metrics.PoseRelation.full_transformation, metrics.PoseRelation.rotation_angle_deg):
                m = metrics.APE(rel)
                m.process_data((o, p))
                m.get_all_statistics()
                m.get_result()
        elif o.num_poses >= 2:
            m = metrics.RPE(metrics.PoseRelation.translation_part, 1.0, metrics.Unit.frames, all_pairs=True)
            m.process_data((o, p))
            m.get_all_statistics()
            m.get_result()
    elif what == "Infos":
        o.get_infos(), o.get_statistics(), o.check(), str(o), o.path_length, o.distances, o.speeds
        _ = (o == p)
    elif what == "Pairs":
        ps = o.poses_se3
        if len(ps) >= 2:
            filters.filter_pairs_by_path(ps, 1.0, 0.5, True)
            filters.filter_pairs_by_path(ps, 1.0)
            filters.filter_pairs_by_index(ps, 1, True)
            filters.filter_pairs_by_angle(ps, 90.0, 10.0, True, False)
            filters.filter_by_motion(ps, 1.0, 30.0, True)
            metrics.id_pairs_from_delta(ps, 1, metrics.Unit.frames, all_pairs=False)
    elif what == "DataFrame":
        df = pandas_bridge.trajectory_to_df(o)
        t2 = pandas_bridge.df_to_trajectory(df)
        t2.scale(3.0)
        df.iloc[0, 0] = 123.0
        if o is not p:
            # a frame that is not sorted by time (two conversions concatenated, later one first) is an argument like any other
            import pandas as pd
            both = pd.concat([pandas_bridge.trajectory_to_df(p), pandas_bridge.trajectory_to_df(o)])
            key = (both.to_numpy().tobytes(), tuple(both.index))
            try:
                pandas_bridge.df_to_trajectory(both)
            except Exception:  # noqa: BLE001
                pass
            if (both.to_numpy().tobytes(), tuple(both.index)) != key:
                raise _ArgumentChanged("DataFrame")
    elif what == "Write":
        file_interface.write_tum_trajectory_file(io.StringIO(), o)
        file_interface.write_kitti_poses_file(io.StringIO(), o)
        try:
            import tempfile
            from rosbags.rosbag1 import Writer
            with tempfile.TemporaryDirectory(dir=core.workdir()) as td:
                with Writer(td + "/w.bag") as wr:
                    file_interface.write_bag_trajectory(wr, o, "/pose")             # no frame id given, none in the meta
        except ImportError:
            pass
    elif what == "Sync":
        from evo.core import sync
        if len(o.timestamps) and len(p.timestamps):          # (an empty stamp list is not a trajectory; evo's argmin refuses it)
            sync.matching_time_indices(o.timestamps, p.timestamps, 0.5, 0.25)
            sync.matching_time_indices(p.timestamps, o.timestamps, 0.5, -1.0)
        try:
            sync.associate_trajectories(o, p, 0.5, 0.25)
        except sync.SyncException:
            pass
    elif what == "Geometry":
        from evo.core import geometry, lie_algebra as lie
        if o.num_poses == p.num_poses:
            try:
                geometry.umeyama_alignment(o.positions_xyz.T, p.positions_xyz.T, True)
            except geometry.GeometryException:
                pass
        geometry.arc_len(o.positions_xyz)
        geometry.accumulated_distances(o.positions_xyz)
        for a, b in zip(o.poses_se3, o.poses_se3[1:]):
            lie.relative_se3(a, b), lie.se3_inverse(a), lie.so3_log(a[:3, :3]), lie.is_se3(b), lie.sim3_inverse(a)
    elif what == "Plot":
        import matplotlib.pyplot as plt
        from evo.tools import plot
        fig = plt.figure(figsize=(2, 2))
        ax = plot.prepare_axis(fig, plot.PlotMode.xy)
        plot.traj(ax, plot.PlotMode.xy, o)
        plot.draw_coordinate_axes(ax, o, plot.PlotMode.xy, 0.1)
        if o.num_poses == p.num_poses and o is not p:
            plot.draw_correspondence_edges(ax, o, p, plot.PlotMode.xy)
        fig2, axarr = plt.subplots(3)
        plot.traj_xyz(axarr, o, start_timestamp=t0 + 1.0)
        plot.traj_rpy(axarr, o, start_timestamp=t0 + 1.0)
        fig3 = plt.figure(figsize=(2, 2))
        if o.num_poses >= 2:
            plot.speeds(fig3.gca(), o, start_timestamp=t0 + 1.0)
        plt.close("all")


class _ArgumentChanged(Exception):
    """an argument that is not a trajectory object (a list, a DataFrame, a matrix) was modified by a computation"""


def execute(job):
    from evo.core import sync, trajectory
    from evo.core.geometry import GeometryException
    n, hist, built, t0 = job[:4]
    touch = job[4] if len(job) > 4 else "none"          # cache history: which views of the target are read before each mutating step
    objs = {1: _initial(built, t0)}
    extras = []
    extras_changed = []
    ev = []
    for e in hist:
        args = e["args"]
        need = ([e["target"]] if e["target"] else []) + list(args)
        if any(a not in objs for a in need):
            break          # an object the model created does not exist (e.g. no gap left to split at)
        before = {k: _snap(t) for k, t in objs.items()}
        before.update({-(i + 1): _snap(t) for i, t in enumerate(extras)})
        name = e["name"]
        tgt = objs.get(e["target"])
        created = []
        if tgt is not None and touch != "none":
            if touch in ("all", "check"):
                tgt.check()
            if touch in ("all", "views"):
                _ = (tgt.positions_xyz, tgt.orientations_quat_wxyz, tgt.poses_se3)
            before[e["target"]] = _snap(tgt)
        try:
            if name == "DeepCopy":
                created = [copy.deepcopy(objs[args[0]])]
            elif name == "Split":
                o = objs[args[0]]
                parts = {"time": lambda: o.split_time_gaps(4.0), "distance": lambda: o.split_distance_gaps(10.0),
                         "speed": lambda: o.split_speed_outliers(3.5)}[e["how"]]()
                parts = [p for p in parts if p is not o]
                created = parts[:2]
                extras.extend(parts[2:])
            elif name == "Associate":
                a, b = sync.associate_trajectories(objs[args[0]], objs[args[1]], max_diff=0.5)
                created = [a, b]
            elif name == "Merge":
                lst = [objs[a] for a in reversed(args)]         # the caller's list (later trajectory first) is an argument too
                ids0 = [id(x) for x in lst]
                created = [trajectory.merge(lst)]
                if [id(x) for x in lst] != ids0:
                    extras_changed.append("list")
            elif name == "Transform":
                T = geom.se3(geom.o24_matrix((2, -1, 3)), [1.0, -2.0, 3.0])
                if n % 2:
                    T[:3, :3] *= 2.0                    # a Sim(3) matrix
                Tb = T.tobytes()
                tgt.transform(T)
                if T.tobytes() != Tb:                   # the matrix handed in is an argument like any other
                    extras_changed.append("matrix")
            elif name == "Scale":
                tgt.scale(2.0)
            elif name == "Reduce":
                if tgt.num_poses < 2:
                    break          # the real object is shorter than the model's (fewer matches / other split sizes): no trajectory would be left
                tgt.reduce_to_ids(list(range(tgt.num_poses - 1)))
            elif name == "Project":
                tgt.project(trajectory.Plane.XY)
            elif name == "Align":
                tgt.align(objs[args[0]], correct_scale=True)
            elif name == "AlignOrigin":
                tgt.align_origin(objs[args[0]])
            else:
                _compute(name, objs[args[0]], objs[args[1]], t0)
        except _ArgumentChanged:
            extras_changed.append("frame")
        except (trajectory.TrajectoryException, GeometryException, sync.SyncException):
            pass
        for cid, c in zip(e["created"], created):
            objs[cid] = c
        after = {k: _snap(t) for k, t in objs.items() if k in before}
        after.update({-(i + 1): _snap(t) for i, t in enumerate(extras) if -(i + 1) in before})
        changed = _changed(before, after)
        if extras_changed:
            changed = sorted(set(changed) | {-99})      # -99: the transformation matrix passed to transform()
            extras_changed.clear()
        ev.append({"name": name, "kind": e["kind"], "target": e["target"], "args": list(args),
                   "created": list(e["created"][:len(created)]), "changed": changed})
        if len(created) < len(e["created"]):
            break
    return {"id": "a%d" % n, "built": built, "ev": ev}


def big_plot_trace():
    """plots of a trajectory with 1200 poses (coordinate-frame markers, trajectory, speeds): the argument keeps all its poses"""
    import matplotlib
    matplotlib.use("Agg")
    import matplotlib.pyplot as plt
    from evo.core.trajectory import PoseTrajectory3D
    from evo.tools import plot
    n = 1200
    pos = np.column_stack((np.arange(n, dtype=float), np.zeros(n), np.zeros(n)))
    t = PoseTrajectory3D(positions_xyz=pos, orientations_quat_wxyz=np.tile([1.0, 0, 0, 0], (n, 1)), timestamps=np.arange(n, dtype=float))
    before = (_snap(t), t.num_poses)
    fig = plt.figure(figsize=(2, 2))
    ax = plot.prepare_axis(fig, plot.PlotMode.xy)
    plot.traj(ax, plot.PlotMode.xy, t)
    plot.draw_coordinate_axes(ax, t, plot.PlotMode.xy, 0.1)
    plot.speeds(plt.figure(figsize=(2, 2)).gca(), t)
    plt.close("all")
    changed = [] if (geom.same_snapshot(_snap(t), before[0]) and t.num_poses == before[1] and len(t.timestamps) == n) else [1]
    return {"id": "bigplot", "built": "pq", "ev": [{"name": "PlotLong", "kind": "compute", "target": 0, "args": [1], "created": [], "changed": changed}]}


def result_traces(seed):
    """merge_results: inputs unchanged, merged result independent of them (harness-driven history)"""
    from evo.core import metrics, result
    traces = []
    for variant in range(2):
        rs = []
        for k in range(2):
            m = metrics.APE(metrics.PoseRelation.translation_part)
            a, b = _initial("se3", 0.0), _initial("pq", 0.0)
            b.transform(geom.se3(np.eye(3), [0.5 * (k + 1), 0, 0]))
            m.process_data((a, b))
            r = m.get_result("ref", "est")
            r.add_trajectory("ref", a)
            r.add_trajectory("est", b)
            if variant == 1 and k == 1:
                r.np_arrays["error_array"] = r.np_arrays["error_array"][:-1]      # unequal lengths: append strategy
            rs.append(r)

        def snap(r):
            return {"info": repr(sorted(r.info.items())), "stats": repr(sorted(r.stats.items())),
                    "arrays": b"".join(np.asarray(v).tobytes() for _, v in sorted(r.np_arrays.items())),
                    "traj": repr([sorted(geom.snapshot(t).items(), key=lambda kv: kv[0]) for _, t in sorted(r.trajectories.items())])}
        ev = []
        from evo.tools import pandas_bridge
        before = [snap(r) for r in rs]
        for r in rs:
            pandas_bridge.result_to_df(r)
        after = [snap(r) for r in rs]
        ev.append({"name": "ResultToDataFrame", "kind": "compute", "target": 0, "args": [1, 2], "created": [],
                   "changed": [k + 1 for k in range(2) if before[k] != after[k]]})
        before = [snap(r) for r in rs]
        merged = result.merge_results(rs)
        after = [snap(r) for r in rs]
        ev.append({"name": "MergeResults", "kind": "derive", "target": 0, "args": [1, 2], "created": [3],
                   "changed": [k + 1 for k in range(2) if before[k] != after[k]]})
        before = after
        for arr in merged.np_arrays.values():
            arr += 1.0
        merged.stats = {k: v + 1 for k, v in merged.stats.items()}
        merged.info["title"] = "changed"
        for t in merged.trajectories.values():
            t.scale(2.0)
            t.project(__import__("evo.core.trajectory", fromlist=["Plane"]).Plane.XY)
        after = [snap(r) for r in rs]
        ev.append({"name": "MutateMerged", "kind": "mutate", "target": 3, "args": [], "created": [],
                   "changed": [k + 1 for k in range(2) if before[k] != after[k]]})
        traces.append({"id": "res%d" % variant, "built": "-", "ev": ev})
    return traces


def run(rep, tier, seed):
    rng = random.Random(seed)
    r = core.tlc("alias", "Alias", "MC_alias_%s.cfg" % tier)
    rep.add_tlc(r)
    hists = r.printed_json()
    rl = core.tlc("alias", "Alias", "MC_alias_legacy.cfg", expect_ok=False)
    if rl.rc not in (12, 13):
        raise core.MachineryError("in-place projection not refuted by TLC on the alias model (rc=%d)" % rl.rc)
    rep.extra["m_histories"] = len(hists)
    if tier == "thorough" and len(hists) > 120000:
        rng.shuffle(hists)
        hists = hists[:120000]
    import evo.tools.plot  # noqa: F401
    import evo.tools.pandas_bridge  # noqa: F401
    jobs = [(n, h, "se3" if n % 3 else "pq", [0.0, 1.5e9][n % 2], ["none", "all", "check", "views"][(n // 6) % 4]) for n, h in enumerate(hists)]
    traces = core.pmap(execute, jobs, chunksize=50)
    traces += result_traces(seed)
    traces.append(big_plot_trace())
    for t in traces:
        if len(t["ev"]) >= 2:
            rep.nontriv([t["built"], [(e["name"], e["target"], e["args"]) for e in t["ev"]]])
    probes = []
    for n, t in enumerate([t for t in traces if len(t["ev"]) >= 2][:3]):
        p = copy.deepcopy(t)
        p["id"] = "probe%d" % n
        p["ev"][-1]["changed"] = [1] if p["ev"][-1]["target"] != 1 else [2]
        probes.append(p)
    rejects = core.validate("alias", "Trace_Alias", [{"id": t["id"], "ev": t["ev"], "_single": True} for t in traces + probes], workers=8)
    # Trace_Alias takes one verdict step per trace
    rej = {x[0] for x in rejects}
    if not probes or any(p["id"] not in rej for p in probes):
        core.probe_fail(rejects, "P accepted corrupted traces")
    rep.extra["probes_rejected"] = len(probes)
    rep.traces = len(traces)
    rep.evaluations = sum(len(t["ev"]) for t in traces)
    by_id = {t["id"]: t for t in traces}
    for tid, clause, rest in rejects:
        if tid.startswith("probe"):
            continue
        t = by_id[tid]
        k = rest[0] if rest else 1
        e = t["ev"][k - 1]
        rep.violation({"clause": clause, "op": e["name"], "history": "/".join(x["name"] for x in t["ev"][:k])},
                      {"trace": t, "failing_event": k})
    for t in traces[:2] + traces[-1:]:
        rep.sample(t)
    rep.rule = ("every history (depth %s) of deepcopy / split_time|distance|speed / associate / merge / reduce / project / transform / "
                "scale / align / align_origin over <= 4 objects generated by TLC from the array-sharing model, ending in one of 9 "
                "computations (APE, RPE, infos+statistics, pair selection, DataFrame round trip, writers, plots, time association incl. raw stamp arrays, geometry/Lie helpers); all live objects "
                "are snapshotted bit for bit around every step; + merge_results histories; non-trivial = histories with >= 2 executed steps"
                % ("3" if tier == "quick" else "4"))
    rep.assumptions = ["a cache being filled or dropped is not a modification; any bit of an existing array changing is",
                       "when a split finds no gap evo returns the object itself (same object, no independence demanded)"]


def selftest(rep):
    rl = core.tlc("alias", "Alias", "MC_alias_legacy.cfg", expect_ok=False)
    return rl.rc in (12, 13)


def replay(rep, path):
    import json
    body = json.load(open(path))
    t = body["detail"]["trace"]
    print("recorded trace:", json.dumps(t)[:2000])
    print("re-run the check to re-execute the history (histories are regenerated from Alias.tla)")
    return 0

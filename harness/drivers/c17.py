"""C17 no overwrite without confirmation.  M = spec/overwrite/Overwrite.tla enumerates
site x path kind x confirm x existing targets x answers; each case is executed on the real writer /
in-process CLI in a scratch directory with input() patched; P = OverwriteProps via Trace_Overwrite."""
import hashlib
import os
import pathlib
import pickle
import shutil
import tempfile

import numpy as np

import cli
import core

JUNK = b"EXISTING FILE - must stay byte for byte\n\x00\x01"


def _h(path):
    try:
        with open(path, "rb") as f:
            return hashlib.sha1(f.read()).hexdigest()
    except (FileNotFoundError, IsADirectoryError):
        return None


def _traj(n=6, shift=0.0):
    from evo.core.trajectory import PoseTrajectory3D
    pos = np.array([[i + shift, 0.5 * i, 0.0] for i in range(n)], dtype=float)
    quat = np.tile([1.0, 0, 0, 0], (n, 1))
    return PoseTrajectory3D(pos, quat, np.arange(n, dtype=float))


def _result():
    from evo.core import metrics
    m = metrics.APE(metrics.PoseRelation.translation_part)
    m.process_data((_traj(), _traj(shift=0.25)))
    r = m.get_result("ref", "est")
    r.add_trajectory("ref", _traj())
    return r


def _figs(names):
    import matplotlib.pyplot as plt
    from evo.tools import plot
    pc = plot.PlotCollection("t")
    for n in names:
        fig = plt.figure(figsize=(2, 2))
        fig.gca().plot([0, 1], [0, 1])
        pc.add_figure(n, fig)
    return pc


def _valid(path, how):
    try:
        if how == "tum":
            from evo.tools import file_interface
            return file_interface.read_tum_trajectory_file(path).num_poses >= 2
        if how == "kitti":
            from evo.tools import file_interface
            return file_interface.read_kitti_poses_file(path).num_poses >= 2
        if how == "res":
            from evo.tools import file_interface
            return len(file_interface.load_res_file(path).np_arrays["error_array"]) >= 2
        data = open(path, "rb").read()
        if how == "png":
            return data[:8] == b"\x89PNG\r\n\x1a\n"
        if how == "pdf":
            return data[:4] == b"%PDF"
        if how == "pickle":
            return isinstance(pickle.loads(data), dict)
        if how == "csv":
            return b"," in data and len(data) > 10
        if how == "json":
            import json
            return isinstance(json.loads(data.decode()), dict)
    except Exception:
        return False
    return False


def _inputs(d):
    cli.write_tum(os.path.join(d, "ref.txt"), range(8), [(i, 0, 0) for i in range(8)])
    cli.write_tum(os.path.join(d, "est.txt"), range(8), [(i, 0.125 * i, 0) for i in range(8)])
    cli.write_tum(os.path.join(d, "est2.txt"), range(8), [(i, 0.25 * i, 0.5) for i in range(8)])


_RES_CACHE = {}


def _res_inputs(d):
    """two result archives for evo_res (produced once by real evo_ape runs, then copied)"""
    if "dir" not in _RES_CACHE:
        c = core.subdir("rescache")
        _inputs(c)
        for est, out in (("est.txt", "r1.zip"), ("est2.txt", "r2.zip")):
            r = cli.run_cli("ape", ["tum", "ref.txt", est, "--save_results", out], c)
            if r["code"] != 0 or r["exc"] != "none":
                raise core.MachineryError("could not produce result files for evo_res: %s" % r)
        _RES_CACHE["dir"] = c
    for f in ("r1.zip", "r2.zip"):
        shutil.copy(os.path.join(_RES_CACHE["dir"], f), os.path.join(d, f))


# site -> (targets, validators, runner)
def _site(name, d, kind):
    P = (lambda p: pathlib.Path(p)) if kind == "Path" else (lambda p: p)
    j = lambda *a: os.path.join(d, *a)  # noqa: E731
    if name == "lib_write_tum":
        from evo.tools import file_interface as fi
        return [j("o.tum")], ["tum"], lambda c: (fi.write_tum_trajectory_file(P(j("o.tum")), _traj(), c) if kind == "Path"        # third positional argument
                                                 else fi.write_tum_trajectory_file(P(j("o.tum")), _traj(), confirm_overwrite=c))
    if name == "lib_write_kitti":
        from evo.tools import file_interface as fi
        return [j("o.kitti")], ["kitti"], lambda c: fi.write_kitti_poses_file(P(j("o.kitti")), _traj(), confirm_overwrite=c)
    if name == "lib_save_res":
        from evo.tools import file_interface as fi
        return [j("o.zip")], ["res"], lambda c: (fi.save_res_file(P(j("o.zip")), _result(), c) if kind == "str"
                                               else fi.save_res_file(P(j("o.zip")), _result(), confirm_overwrite=c))
    if name == "lib_save_table":
        from evo.tools import pandas_bridge as pb
        import pandas as pd
        df = pd.DataFrame({"a": [1.0, 2.0], "b": [3.0, 4.0]})
        return [j("o.csv")], ["csv"], lambda c: pb.save_df_as_table(df, P(j("o.csv")), format_str="csv", transpose=False, confirm_overwrite=c)
    if name == "lib_export_pdf":
        return [j("o.pdf")], ["pdf"], lambda c: _figs(["a", "b"]).export(j("o.pdf"), confirm_overwrite=c)
    if name == "lib_export_png":
        return [j("o_a.png"), j("o_b.png")], ["png", "png"], lambda c: _figs(["a", "b"]).export(j("o.png"), confirm_overwrite=c)
    if name == "lib_export_noext":
        # no extension in the requested name: savefig() appends the default format, so the files at stake are o_a.png / o_b.png
        return [j("o_a.png"), j("o_b.png")], ["png", "png"], lambda c: _figs(["a", "b"]).export(j("o"), confirm_overwrite=c)
    if name == "lib_serialize":
        return [j("o.evo")], ["pickle"], lambda c: _figs(["a"]).serialize(j("o.evo"), confirm_overwrite=c)
    # ---- CLI sites
    app, _, what = name.partition("_")

    def runner(argv, need_res=False):
        def go(c, answers, on_prompt):
            if need_res:
                _res_inputs(d)
            else:
                _inputs(d)
            r = cli.run_cli(app, argv + ([] if c else ["--no_warnings"]), d, answers, on_prompt)
            return r
        return go
    if app in ("ape", "rpe"):
        base = ["tum", "ref.txt", "est.txt"]
        if what == "save_results":
            return [j("out.zip")], ["res"], runner(base + ["--save_results", "out.zip"])
        if what == "save_plot_pdf":
            return [j("out.pdf")], ["pdf"], runner(base + ["--save_plot", "out.pdf"])
        if what == "save_plot_png":
            return [j("out_raw.png"), j("out_map.png")], ["png", "png"], runner(base + ["--save_plot", "out.png"])
        if what == "save_plot_noext":
            return [j("out_raw.png"), j("out_map.png")], ["png", "png"], runner(base + ["--save_plot", "out"])
        if what == "serialize_plot":
            return [j("out.evo")], ["pickle"], runner(base + ["--serialize_plot", "out.evo"])
    if app == "traj":
        base = ["tum", "est.txt", "--ref", "ref.txt"]
        if what == "save_as_tum":
            return [j("est.tum"), j("ref.tum")], ["tum", "tum"], runner(base + ["--save_as_tum"])
        if what == "save_as_kitti":
            return [j("est.kitti"), j("ref.kitti")], ["kitti", "kitti"], runner(base + ["--save_as_kitti"])
        if what == "save_plot_png":
            return ([j("out_%s.png" % n) for n in ("trajectories", "xyz", "rpy", "speeds")], ["png"] * 4,
                    runner(base + ["--save_plot", "out.png"]))
        if what == "save_plot_pdf":
            return [j("out.pdf")], ["pdf"], runner(base + ["--save_plot", "out.pdf"])
        if what == "serialize_plot":
            return [j("out.evo")], ["pickle"], runner(base + ["--serialize_plot", "out.evo"])
        if what == "save_table":
            return [j("out.csv")], ["csv"], runner(base + ["--save_table", "out.csv"])
    if app == "res":
        base = ["r1.zip", "r2.zip", "--use_filenames"] + (["--ignore_title"] if kind == "str" and what.endswith("table") else [])
        if what == "save_table":
            return [j("out.csv")], ["csv"], runner(base + ["--save_table", "out.csv"], True)
        if what == "save_plot_pdf":
            return [j("out.pdf")], ["pdf"], runner(base + ["--save_plot", "out.pdf"], True)
        if what == "save_plot_png":
            return ([j("out_%s.png" % n) for n in ("raw", "stats", "histogram", "box_plot", "violin_histogram")], ["png"] * 5,
                    runner(base + ["--save_plot", "out.png"], True))
        if what == "serialize_plot":
            return [j("out.evo")], ["pickle"], runner(base + ["--serialize_plot", "out.evo"], True)
    if name == "config_generate_out":
        def go(c, answers, on_prompt):
            # evo_config generate has no --no_warnings: confirmation is always on
            return cli.run_cli("config", ["generate", "--align", "--plot_mode", "xz", "-o", "out.json"], d, answers, on_prompt)
        return [j("out.json")], ["json"], go
    raise core.MachineryError("unknown site " + name)


def execute(case):
    """run one case on the real code; returns the observation o of OverwriteProps"""
    d = tempfile.mkdtemp(prefix="ow_", dir=core.workdir())
    try:
        targets, validators, run = _site(case["site"], d, case["kind"])
        if len(targets) != case["nt"]:
            raise core.MachineryError("site %s: %d targets in harness, %d in model" % (case["site"], len(targets), case["nt"]))
        import zlib
        hk = zlib.crc32(repr(_key(case)).encode())
        junk = b"" if hk % 3 == 0 else JUNK        # the pre-existing file may be empty: it exists all the same
        if hk % 2 == 0 and any(case["ex"]):
            # history: the same paths were already written once by this process, confirmed with 'y' - nothing may be remembered
            for t, e in zip(targets, case["ex"]):
                if e:
                    with open(t, "wb") as f:
                        f.write(JUNK)
            try:
                if case["site"].startswith("lib_"):
                    with cli.prompting(["y"] * 8, lambda p: None):
                        run(True)
                else:
                    run(True, ["y"] * 8, lambda p: None)
            except Exception:  # noqa: BLE001
                pass
            for t in targets:
                if os.path.exists(t):
                    os.remove(t)
        for t, e in zip(targets, case["ex"]):
            if e:
                with open(t, "wb") as f:
                    f.write(junk)
        before = [_h(t) for t in targets]
        prompts = []

        def on_prompt(p):
            changed = [k + 1 for k, t in enumerate(targets) if _h(t) != before[k]]
            tidx = 0
            if p.get("path"):
                ap = os.path.abspath(os.path.join(d, p["path"]))
                for k, t in enumerate(targets):
                    if os.path.abspath(t) == ap:
                        tidx = k + 1
            if tidx == 0:   # attribute by order: next existing target not asked about yet
                asked = {q["t"] for q in prompts}
                for k, e in enumerate(case["ex"]):
                    if e and (k + 1) not in asked:
                        tidx = k + 1
                        break
            prompts.append({"t": tidx, "a": p["answer"], "done": changed})
        exc = "none"
        confirm = case["confirm"]
        if case["site"].startswith("lib_"):
            with cli.prompting(case["ans"], on_prompt):
                try:
                    run(confirm)
                except Exception as e:  # noqa: BLE001
                    exc = type(e).__name__
            try:
                import matplotlib.pyplot as plt
                plt.close("all")
            except Exception:
                pass
        else:
            r = run(confirm, case["ans"], on_prompt)
            if r["exc"] != "none":
                exc = r["exc"].split(":")[0]
            elif r["code"] not in (0, None):
                exc = "exit%s" % r["code"]
        after, valid = [], []
        for k, t in enumerate(targets):
            h = _h(t)
            after.append("absent" if h is None else ("old" if h == before[k] else "new"))
            ok = True if after[-1] != "new" else _valid(t, validators[k])
            if ok and after[-1] == "new" and before[k] is not None and junk:
                ok = JUNK not in open(t, "rb").read()          # "replaced": nothing of the old content is left in the file
            valid.append(ok)
        expected = {os.path.basename(t) for t in targets} | {"ref.txt", "est.txt", "est2.txt", "r1.zip", "r2.zip"}
        stray = len([f for f in os.listdir(d) if f not in expected])
        return {"after": after, "prompts": prompts, "valid": valid, "stray": stray, "exc": exc}
    finally:
        shutil.rmtree(d, ignore_errors=True)


def _key(c):
    k = sum(1 for e in c["ex"] if e) if c["confirm"] else 0
    return (c["site"], c["kind"], c["confirm"], tuple(c["ex"]), tuple(c["ans"][:k]))


def _exec_safe(c):
    try:
        return execute(c)
    except core.MachineryError as e:
        return {"machinery": str(e)}


def run(rep, tier, seed):
    if tier == "quick" and os.environ.get("CONFIG_NOWARN_NOTE"):
        pass
    r = core.tlc("overwrite", "Overwrite", "MC_overwrite_%s.cfg" % tier, workers=4)
    rep.add_tlc(r)
    cases = r.printed_json()
    rl = core.tlc("overwrite", "Overwrite", "MC_overwrite_legacy.cfg", workers=4, expect_ok=False)
    if rl.rc != 12:
        raise core.MachineryError("model without the confirmation step not refuted by TLC")
    rep.extra["m_cases"] = len(cases)
    # config_generate_out has no --no_warnings flag: confirm=FALSE does not exist for that site
    cases = [c for c in cases if not (c["site"] == "config_generate_out" and not c["confirm"])]
    uniq = {}
    for c in cases:
        uniq.setdefault(_key(c), c)
    todo = list(uniq.values())
    rep.extra["distinct_behaviours_executed"] = len(todo)
    if any(c["site"].startswith("res_") for c in todo):     # produce the evo_res inputs once, before forking
        dd = core.subdir("reswarm")
        _res_inputs(dd)
    _figs(["warm"])  # import matplotlib before forking
    import matplotlib.pyplot as plt
    plt.close("all")
    obs = core.pmap(_exec_safe, todo, chunksize=2)
    traces, by_id = [], {}
    for n, (c, o) in enumerate(zip(todo, obs)):
        if "machinery" in o:
            raise core.MachineryError(o["machinery"])
        tid = "c%d" % n
        traces.append({"id": tid, "ex": c["ex"], "confirm": c["confirm"], "o": o})
        by_id[tid] = (c, o)
        m = c["m"]
        if o["after"] != m["after"] or [(p["t"], p["a"]) for p in o["prompts"]] != [(p["t"], p["a"]) for p in m["prompts"]]:
            rep.drifted("%s %s: model %s, code %s" % (c["site"], _key(c)[2:], m, o))
        if o["exc"] != "none" and not (o["exc"] in ("EOFError", "exit1") and "EOF" in list(c["ans"])):   # the library raises, the commands exit with 1
            rep.drifted("%s: exception %s" % (c["site"], o["exc"]))
        if any(c["ex"]) and c["confirm"]:
            rep.nontriv(_key(c))
    probes = _probes(traces)
    rejects = core.validate("overwrite", "Trace_Overwrite", traces + probes, workers=4)
    rej = {x[0] for x in rejects}
    missing = [p["id"] for p in probes if p["id"] not in rej]
    if missing or not probes:
        core.probe_fail(rejects, "P accepted corrupted traces: %s" % missing)
    rep.extra["probes_rejected"] = len(probes)
    rep.traces = len(traces)
    rep.evaluations = len(cases)
    for tid, clause, _ in rejects:
        if tid.startswith("probe"):
            continue
        c, o = by_id[tid]
        rep.violation({"clause": clause, "site": c["site"], "kind": c["kind"], "confirm": c["confirm"]},
                      {"case": {k: c[k] for k in ("site", "nt", "kind", "confirm", "ex", "ans")}, "observed": o})
    for t in traces[:2] + traces[-2:]:
        c, o = by_id[t["id"]]
        rep.sample({"site": c["site"], "kind": c["kind"], "confirm": c["confirm"], "ex": c["ex"], "ans": c["ans"], "observed": o})
    rep.exhaustive = (tier == "thorough")
    rep.rule = ("TLC enumerates output site x path kind x confirm x which targets exist x answers (Overwrite.tla); cases that "
                "differ only in answers never consumed are executed once; each is run on the real writer / in-process CLI in a "
                "scratch dir, files hashed before/after, prompts recorded; non-trivial = distinct cases with an existing target and confirmation on")
    rep.assumptions = ["prompts are attributed to targets by evo's 'exists, overwrite?' log record, else by order",
                       "quick tier covers all library sites and 6 CLI sites; thorough covers all 19 CLI sites"]


def _probes(traces):
    import copy
    out = []
    good = [t for t in traces if any(t["ex"]) and t["confirm"] and t["o"]["prompts"] and t["o"]["prompts"][0]["a"] != "y"][:2]
    for n, t in enumerate(good):
        p = copy.deepcopy(t)
        p["id"] = "probe.overwritten%d" % n
        k = p["o"]["prompts"][0]["t"] - 1
        p["o"]["after"][k] = "new"
        out.append(p)
        p = copy.deepcopy(t)
        p["id"] = "probe.noprompt%d" % n
        p["o"]["prompts"] = []
        p["o"]["after"][k] = "new"
        out.append(p)
    return out


def selftest(rep):
    r = core.tlc("overwrite", "Overwrite", "MC_overwrite_legacy.cfg", workers=4, expect_ok=False)
    return r.rc == 12


def replay(rep, path):
    import json
    body = json.load(open(path))
    c = body["detail"]["case"]
    o = execute(c)
    print("observed:", o)
    rej = core.validate("overwrite", "Trace_Overwrite", [{"id": "replay", "ex": c["ex"], "confirm": c["confirm"], "o": o}], workers=2)
    if rej:
        print("VIOLATION property=C17 replay=%s clause=%s" % (path, rej[0][1]))
        return 1
    print("replay accepted by P")
    return 0

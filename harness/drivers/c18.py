"""C18 config edits and generated configs.  Generator spec/config/Config.tla (token lists for evo_config set, reset subsets,
upgrade cases, option-kind lists for evo_config generate), P = ConfigProps via Trace_Config."""
import argparse
import copy
import json
import os
import shutil
import subprocess
import sys
import tempfile

import core

KEY = {"B": "plot_show_legend", "L": "plot_statistics", "N": "plot_linewidth", "S": "table_export_format"}
CFG0 = {"plot_show_legend": False, "plot_statistics": ["rmse"], "plot_linewidth": 1.5, "table_export_format": "pdf"}
FALSY = {"plot_show_legend": False, "plot_statistics": [], "plot_linewidth": 0, "table_export_format": ""}
TRUTHY = {"plot_show_legend": True, "plot_statistics": ["max"], "plot_linewidth": 4.5, "table_export_format": "latex"}


def absval(v):
    if isinstance(v, bool):
        return {"t": "bool", "v": v}
    if isinstance(v, list):
        return {"t": "list", "v": [absval(x) for x in v]}
    if isinstance(v, int):
        return {"t": "int", "v": str(v)}
    if isinstance(v, float):
        return {"t": "float", "v": repr(v)}
    if v is None:
        return {"t": "none", "v": "none"}
    return {"t": "str", "v": str(v)}


def _scratch_settings():
    from evo.tools.settings_template import DEFAULT_SETTINGS_DICT
    d = tempfile.mkdtemp(prefix="cfg_", dir=core.workdir())
    cfg = dict(DEFAULT_SETTINGS_DICT)
    cfg.update(CFG0)
    path = os.path.join(d, "settings.json")
    with open(path, "w") as f:
        json.dump(cfg, f, indent=4, sort_keys=True)
    return d, path, cfg


def _obs_cfg(path, before):
    after = json.load(open(path))
    rep = set(KEY.values())
    return {"cfg": {p: absval(after.get(k)) for p, k in KEY.items()},
            "keys_same": set(after) == set(before),
            "others_same": all(after.get(k) == v and type(after.get(k)) is type(v) for k, v in before.items() if k not in rep)}


def exec_set(c):
    from evo import main_config
    from evo.tools import settings
    from pathlib import Path
    d, path, cfg = _scratch_settings()
    toks = [KEY.get(t, t) for t in c["toks"]]
    try:
        try:
            main_config.set_config(path, toks)
        except Exception as e:  # noqa: BLE001
            return {"out": type(e).__name__, "cfg": {}, "keys_same": True, "others_same": True}
        o = dict(_obs_cfg(path, cfg), out="ok")
        if c["fam"] == "reset":
            before = json.load(open(path))
            try:
                settings.reset(Path(path), [KEY[p] for p in c["subset"]] + ["not_a_parameter"])
            except Exception as e:  # noqa: BLE001
                return {"out": type(e).__name__, "cfg": {}, "keys_same": True, "others_same": True}
            o = dict(_obs_cfg(path, before), out="ok")
            # the defaults of the representatives are CFG0 only in the abstraction: map real defaults back
            from evo.tools.settings_template import DEFAULT_SETTINGS_DICT
            for p in c["subset"]:
                k = KEY[p]
                real = json.load(open(path))[k]
                o["cfg"][p] = absval(CFG0[k]) if real == DEFAULT_SETTINGS_DICT[k] and type(real) is type(DEFAULT_SETTINGS_DICT[k]) else {"t": "str", "v": "NOT-THE-DEFAULT"}
        return o
    finally:
        shutil.rmtree(d, ignore_errors=True)


def exec_upgrade(c):
    """a fresh evo process on a home with an outdated version file, some default keys missing, user values set"""
    from evo.tools.settings_template import DEFAULT_SETTINGS_DICT
    home = tempfile.mkdtemp(prefix="up_", dir=core.workdir())
    try:
        evo = os.path.join(home, ".evo")
        os.mkdir(evo)
        cfg = dict(DEFAULT_SETTINGS_DICT)
        user = {}
        for p, k in KEY.items():
            if p in c["missing"]:
                del cfg[k]
            else:
                cfg[k] = FALSY[k] if p in c["falsy"] else TRUTHY[k]
                user[k] = cfg[k]
        json.dump(cfg, open(os.path.join(evo, "settings.json"), "w"))
        open(os.path.join(evo, "assets_version"), "w").write(["v0.0.1", "v1.9.0", "v1.12.0", "v1.4.2"][__import__("zlib").crc32(repr(sorted(c.items())).encode()) % 4])
        env = dict(os.environ, HOME=home, PYTHONWARNINGS="ignore")
        code = ("import json, evo.tools.settings as s\n"
                "loaded = dict((k, s.SETTINGS[k]) for k in s.SETTINGS if k != '__locked__')\n"
                "s.reset(s.DEFAULT_PATH, ['plot_linewidth', 'plot_statistics'])\n"
                "after = json.load(open(s.DEFAULT_PATH))\n"
                "print(json.dumps({'loaded': loaded, 'after_reset': after}))")
        p = subprocess.run([sys.executable, "-c", code],
                           env=env, capture_output=True, text=True, timeout=120)
        if p.returncode != 0:
            return {"out": "exit%d" % p.returncode, "all_keys": False, "user_kept": False, "added_defaults": False, "reset_after_ok": False}
        both = json.loads(p.stdout.strip().splitlines()[-1])
        loaded, after_reset = both["loaded"], both["after_reset"]
        on_disk = dict(after_reset)
        for k in ("plot_linewidth", "plot_statistics"):       # the state before the reset, for the upgrade clauses
            on_disk[k] = loaded.get(k)
        reset_ok = all(after_reset.get(k) == DEFAULT_SETTINGS_DICT[k] for k in ("plot_linewidth", "plot_statistics")) and \
            all(after_reset.get(k) == v for k, v in loaded.items() if k not in ("plot_linewidth", "plot_statistics"))
        ok_keys = all(k in loaded for k in DEFAULT_SETTINGS_DICT) and all(k in on_disk for k in DEFAULT_SETTINGS_DICT)
        kept = all(loaded.get(k) == v and type(loaded.get(k)) is type(v) and on_disk.get(k) == v for k, v in user.items())
        added = all(on_disk.get(KEY[p_]) == DEFAULT_SETTINGS_DICT[KEY[p_]] for p_ in c["missing"])
        return {"out": "ok", "all_keys": ok_keys, "user_kept": kept, "added_defaults": added, "reset_after_ok": bool(reset_ok)}
    finally:
        shutil.rmtree(home, ignore_errors=True)


def exec_lock():
    from evo.tools import settings
    s = settings.SETTINGS
    before = set(s.keys())
    refused = False
    try:
        s.brand_new_parameter = 1
    except settings.SettingsException:
        refused = True
    s.update_existing_keys({"another_new_parameter": 2})
    same = set(s.keys()) == before
    for k in ("brand_new_parameter", "another_new_parameter"):
        if k in s:
            dict.__delitem__(s, k)
    return {"refused": refused, "keys_same": same}


def exec_override(variant):
    """-c: config values win over command-line values and matching package settings for this run; settings file untouched"""
    from evo import entry_points, main_traj_parser
    from evo.tools import settings
    d = tempfile.mkdtemp(prefix="ov_", dir=core.workdir())
    saved = dict(settings.SETTINGS)
    try:
        fbytes = open(settings.DEFAULT_PATH, "rb").read()
        cfgvals = [{"t_max_diff": 0.75, "downsample": 7, "plot_linewidth": 3, "plot_export_format": "svg", "plot_usetex": True},
                   {"t_offset": -2, "align": True, "plot_fontscale": 2, "plot_statistics": ["max"], "not_a_setting_or_option": 5}][variant]
        path = os.path.join(d, ["c.json", "run.cfg"][variant])     # the config file is whatever -c names
        json.dump(cfgvals, open(path, "w"))
        p = main_traj_parser.parser()
        args = p.parse_args(["tum", "a.txt", "--t_max_diff", "0.01", "--downsample", "3", "--t_offset", "1.0", "-c", path])
        merged = entry_points.merge_config(args)
        argkeys = [k for k in cfgvals if k in vars(args)]
        setkeys = [k for k in cfgvals if k in saved]
        return {"args_priority": all(getattr(merged, k) == cfgvals[k] for k in argkeys),
                "settings_overridden": all(settings.SETTINGS[k] == cfgvals[k] for k in setkeys),
                "file_same": open(settings.DEFAULT_PATH, "rb").read() == fbytes,
                "unknown_ignored": "not_a_setting_or_option" not in settings.SETTINGS}
    finally:
        for k in list(settings.SETTINGS.keys()):
            if k not in saved:
                dict.__delitem__(settings.SETTINGS, k)
        for k, v in saved.items():
            dict.__setitem__(settings.SETTINGS, k, v)
        shutil.rmtree(d, ignore_errors=True)


def exec_climerge(c):
    """evo_config set -c mine.json [tokens] --merge other.json [--soft], through main()"""
    import cli
    from evo.tools import settings
    d, path, cfg = _scratch_settings()
    try:
        other = {"plot_linewidth": 9.5, "plot_show_legend": True, "table_export_format": "latex", "a_key_only_in_other": [1, 2]}
        mine = dict(cfg)
        if c["drop"]:
            del mine["plot_show_legend"]           # a key missing in the file being edited
        json.dump(mine, open(path, "w"), indent=4, sort_keys=True)
        opath = os.path.join(d, "other.json")
        json.dump(other, open(opath, "w"))
        obytes = open(opath, "rb").read()
        sbytes = open(settings.DEFAULT_PATH, "rb").read()
        toks = ["plot_fontscale", "2.5"] if c["toks"] else []
        r = cli.run_cli("config", ["set", "-c", path, "--merge", opath] + (["--soft"] if c["soft"] else []) + toks, d)
        if r["code"] not in (0, None) or r["exc"] != "none":
            return {"out": "exit%s %s" % (r["code"], r["exc"]), "file_is_union": False, "other_same": True, "settings_same": True}
        want = dict(mine)
        if c["toks"]:
            want["plot_fontscale"] = 2.5
        for k, v in other.items():
            if not c["soft"] or k not in want:
                want[k] = v
        got = json.load(open(path))
        return {"out": "ok", "file_is_union": bool(got == want and all(type(got[k]) is type(want[k]) for k in want)),
                "other_same": open(opath, "rb").read() == obytes, "settings_same": open(settings.DEFAULT_PATH, "rb").read() == sbytes}
    finally:
        shutil.rmtree(d, ignore_errors=True)


def exec_runoverride(c):
    """evo_ape ... -c cfg.json --serialize_plot in a FRESH process: the line width of the drawn trajectories is the one from cfg.json,
    and the package settings file is left alone"""
    import pickle
    import cli
    d = tempfile.mkdtemp(prefix="ro_", dir=core.workdir())
    try:
        home = os.path.join(d, "home")
        os.makedirs(home)
        cli.write_tum(os.path.join(d, "ref.txt"), range(6), [(i, 0, 0) for i in range(6)])
        cli.write_tum(os.path.join(d, "est.txt"), range(6), [(i, 0.25 * i, 0) for i in range(6)])
        lw = [3.25, 0.75][c["variant"]]
        json.dump({"plot_linewidth": lw, "plot_reference_linestyle": ":"}, open(os.path.join(d, "cfg.json"), "w"))
        env = dict(os.environ, HOME=home, MPLBACKEND="Agg")
        code = ("import sys; from evo import entry_points; sys.argv = ['evo_%s', 'tum', 'ref.txt', 'est.txt', '-c', 'cfg.json', "
                "'--serialize_plot', 'out.evo', '--no_warnings']; entry_points.%s()" % (c["tool"], c["tool"]))
        p = subprocess.run([sys.executable, "-c", code], cwd=d, env=env, stdout=subprocess.PIPE, stderr=subprocess.STDOUT, timeout=300)
        spath = os.path.join(home, ".evo", "settings.json")
        if p.returncode != 0 or not os.path.exists(os.path.join(d, "out.evo")) or not os.path.exists(spath):
            return {"out": "exit%s %s" % (p.returncode, p.stdout.decode(errors="replace")[-200:]), "effective": False, "file_same": True}
        sdict = json.load(open(spath))
        import matplotlib
        matplotlib.use("Agg")
        figs = pickle.load(open(os.path.join(d, "out.evo"), "rb"))
        widths = []
        for fig in (figs.values() if isinstance(figs, dict) else []):
            for ax in fig.axes:
                for ln in ax.lines:
                    widths.append(float(ln.get_linewidth()))
        import matplotlib.pyplot as plt
        plt.close("all")
        from evo.tools.settings_template import DEFAULT_SETTINGS_DICT
        return {"out": "ok", "effective": any(abs(w - lw) < 1e-9 for w in widths),        # some line is drawn with the (unusual) configured width
                "file_same": bool(sdict.get("plot_linewidth") == DEFAULT_SETTINGS_DICT["plot_linewidth"])}
    except Exception as e:  # noqa: BLE001
        return {"out": type(e).__name__ + ": " + str(e)[:120], "effective": False, "file_same": True}
    finally:
        shutil.rmtree(d, ignore_errors=True)


# ---- evo_config generate
def _tables():
    from evo import main_ape_parser, main_rpe_parser, main_traj_parser
    out = {}
    for name, mod, base in (("ape", main_ape_parser, ["tum", "r.txt", "e.txt"]), ("rpe", main_rpe_parser, ["tum", "r.txt", "e.txt"]),
                            ("traj", main_traj_parser, ["tum", "a.txt"])):
        p = mod.parser()
        sub = [a for a in p._actions if isinstance(a, argparse._SubParsersAction)][0].choices["tum"]
        t = {"flag": [], "int": [], "float": [], "str": [], "choice": [], "nargs2": []}
        for a in sub._actions:
            lo = [o for o in a.option_strings if o.startswith("--")]
            if not lo or a.dest in ("help", "config"):
                continue
            if isinstance(a, argparse._StoreTrueAction):
                if a.dest not in ("align", "align_origin", "plot", "debug", "merge", "save_as_bag", "save_as_bag2"):
                    t["flag"].append((lo[0], a.dest))
            elif a.nargs == 2:
                t["nargs2"].append((lo[0], a.dest))
            elif a.type is int:
                t["int"].append((lo[0], a.dest))
            elif a.type is float:
                t["float"].append((lo[0], a.dest))
            elif a.choices:
                t["choice"].append((lo[0], a.dest, list(a.choices)))
            else:
                t["str"].append((lo[0], a.dest))
        out[name] = (p, base, t)
    return out


def exec_gen(job):
    from evo import entry_points, main_config
    n, c, tables = job
    name = ["ape", "rpe", "traj"][n % 3]
    p, base, t = tables[name]
    used = {k: 0 for k in t}
    argv, dests = [], []
    last = None
    for kind in c["opts"]:
        if kind == "repeat":
            # the previous value-taking option once more, with a different value
            if last is None or last[1] in ("flag", "nargs2", "str"):
                argv.append(None)
                dests.append(None)
                continue
            opt, lk, dst = last
            val2 = {"int": ["250"], "negint": ["-1"], "float": ["0.75"], "negfloat": ["-1.5"], "expfloat": ["2e-2"], "intfloat": ["3"]}[lk]
            argv.append([opt] + val2)
            dests.append(dst)
            continue
        pool = {"flag": "flag", "int": "int", "negint": "int", "float": "float", "negfloat": "float", "expfloat": "float",
                "intfloat": "float", "str": "str", "nargs2": "nargs2"}[kind]
        opts = t[pool]
        if pool == "int":     # --n_to_align accepts -1, --downsample must stay positive
            opts = [o for o in opts if (o[1] == "n_to_align") == (kind == "negint")] or opts
        if pool == "float" and kind == "negfloat":
            opts = [o for o in opts if o[1] in ("t_offset", "plot_colormap_min", "t_start")] or opts
        cand = [o for o in opts if o[1] not in dests]
        if not cand:
            argv.append(None)
            dests.append(None)
            continue
        o = cand[(n // 3 + used[pool]) % len(cand)]
        used[pool] += 1
        zero = (n // 7) % 3 == 1          # every third block of cases uses zero-valued numbers,
        big = (n // 7) % 3 == 2           # another third epoch-sized values with a fraction
        val = {"flag": [], "int": ["0" if zero else "500"], "negint": ["-1"],
               "float": ["0.0" if zero else "1403636580.85" if big else "0.25"], "negfloat": ["-1403636579.75" if big else "-0.5"],
               "expfloat": ["0e0" if zero else "1e-3"], "intfloat": ["0" if zero else "2"], "str": ["out_%d.dat" % n],
               "nargs2": ["0", "0.0"] if zero else ["0.5", "10"]}[kind]
        argv.append([o[0]] + val)
        dests.append(o[1])
        last = (o[0], kind, o[1])
    flat = [x for a in argv if a for x in a]
    try:
        data = main_config.generate(flat)
        d = tempfile.mkdtemp(prefix="gen_", dir=core.workdir())
        path = os.path.join(d, core.name_form("g", ".json", n))
        json.dump(data, open(path, "w"))
        ns1 = p.parse_args(base + flat)
        ns2 = entry_points.merge_config(p.parse_args(base + ["-c", path]))
        shutil.rmtree(d, ignore_errors=True)
    except SystemExit:
        return {"out": "parser-exit", "eq": [], "intok": [], "extra": 0}
    except Exception as e:  # noqa: BLE001
        return {"out": type(e).__name__, "eq": [], "intok": [], "extra": 0}
    eq, intok = [], []
    for kind, dst in zip(c["opts"], dests):
        if dst is None:
            eq.append(True)
            intok.append(True)
            continue
        v1, v2 = getattr(ns1, dst), getattr(ns2, dst, "MISSING")
        eq.append(bool(v1 == v2 and not (isinstance(v1, bool) != isinstance(v2, bool))))
        intok.append(isinstance(v2, int) and not isinstance(v2, bool))
    for k in range(len(dests)):          # a repeated option is judged at its last occurrence only
        if dests[k] is not None and dests[k] in dests[k + 1:]:
            eq[k] = True
            intok[k] = True
    extra = len([k for k in data if k not in [x for x in dests if x]])
    return {"out": "ok", "eq": eq, "intok": intok, "extra": extra}


def run(rep, tier, seed):
    core.workdir()
    import evo.tools.settings  # noqa: F401
    cases = []
    for cfg in (("MC_config_set.cfg" if tier == "quick" else "MC_config_set_thorough.cfg"), "MC_config_reset.cfg", "MC_config_upgrade.cfg",
                ("MC_config_gen.cfg" if tier == "quick" else "MC_config_gen_thorough.cfg")):
        r = core.tlc("config", "Config", cfg, workers=8)
        rep.add_tlc(r)
        cases += r.printed_json()
    if tier == "thorough":
        import random
        rng = random.Random(seed)
        sets = [c for c in cases if c["fam"] == "set"]
        rng.shuffle(sets)
        keep = set(id(c) for c in sets[:20000])
        cases = [c for c in cases if c["fam"] != "set" or id(c) in keep]
    tables = _tables()
    obs = []
    ups = [c for c in cases if c["fam"] == "upgrade"]
    from concurrent.futures import ThreadPoolExecutor
    with ThreadPoolExecutor(core.NCPU) as ex:
        upobs = dict(zip([id(c) for c in ups], ex.map(exec_upgrade, ups)))
    for n, c in enumerate(cases):
        if c["fam"] in ("set", "reset"):
            obs.append(exec_set(c))
        elif c["fam"] == "upgrade":
            obs.append(upobs[id(c)])
        else:
            obs.append(exec_gen((n, c, tables)))
    cases.append({"fam": "lock"})
    obs.append(exec_lock())
    for v in range(2):
        cases.append({"fam": "override", "variant": v})
        obs.append(exec_override(v))
    for soft in (False, True):
        for toks in (False, True):
            for drop in (False, True):
                cases.append({"fam": "climerge", "soft": soft, "toks": toks, "drop": drop})
                obs.append(exec_climerge(cases[-1]))
    ro = [{"fam": "runoverride", "tool": t, "variant": v} for t, v in (("ape", 0), ("rpe", 1))]
    with ThreadPoolExecutor(2) as ex:
        obs += list(ex.map(exec_runoverride, ro))
    cases += ro
    traces = [{"id": "c%d" % n, "c": {k: v for k, v in c.items() if k != "want"}, "o": o, "_single": True} for n, (c, o) in enumerate(zip(cases, obs))]
    for c, o in zip(cases, obs):
        rep.nontriv(c)
        if c["fam"] == "set" and o["out"] == "ok" and o["cfg"] != c["want"]:
            rep.drifted("set %s: model %s, code %s" % (c["toks"], c["want"], o["cfg"]))
    probes = []
    g = next(t for t in traces if t["c"]["fam"] == "set" and t["o"]["out"] == "ok" and "N" in t["c"]["toks"])
    p = copy.deepcopy(g)
    p["id"] = "probe.type"
    p["o"]["cfg"]["B"] = {"t": "str", "v": "true"}
    probes.append(p)
    p = copy.deepcopy(g)
    p["id"] = "probe.keys"
    p["o"]["keys_same"] = False
    probes.append(p)
    g = next(t for t in traces if t["c"]["fam"] == "gen" and "int" in t["c"]["opts"])
    p = copy.deepcopy(g)
    p["id"] = "probe.int"
    p["o"]["intok"] = [False] * len(p["o"]["intok"])
    probes.append(p)
    g = next(t for t in traces if t["c"]["fam"] == "upgrade")
    p = copy.deepcopy(g)
    p["id"] = "probe.upg"
    p["o"]["user_kept"] = False
    probes.append(p)
    rejects = core.validate("config", "Trace_Config", traces + probes, workers=8)
    rej = {x[0] for x in rejects}
    if any(p["id"] not in rej for p in probes):
        core.probe_fail(rejects, "P accepted corrupted traces")
    rep.extra["probes_rejected"] = len(probes)
    rep.traces = len(traces)
    for tid, clause, _ in rejects:
        if tid.startswith("probe"):
            continue
        n = int(tid[1:])
        rep.violation({"clause": clause, "fam": cases[n]["fam"]}, {"case": cases[n], "observed": obs[n]})
    for t in traces[:1] + traces[-4:-3] + traces[-1:]:
        rep.sample({"c": t["c"], "o": t["o"]})
    rep.rule = ("TLC enumerates token lists (<= 3, thorough 4) over 4 representative parameters (bool, list, number, string) and 12 value tokens "
                "for `evo_config set`, reset subsets after edits, upgrade cases (which defaults are missing x which user values are falsy) and "
                "option-kind lists (flag, int, negative int, float, negative float, exponent float, integral float, string, two-value) for "
                "`evo_config generate`; executed on the real functions with scratch settings files / the real argparse parsers of evo_ape, "
                "evo_rpe, evo_traj / fresh evo processes; + locked-container and -c override cases; judged by ConfigProps")
    rep.assumptions = ["settings abstracted to 4 representative keys (all 50 keys are compared for being untouched)",
                       "generate: an int standing in for an integral float option is accepted; a float for an int option is not"]


def selftest(rep):
    return True


def replay(rep, path):
    d = json.load(open(path))["detail"]
    print(json.dumps(d)[:3000])
    return 0

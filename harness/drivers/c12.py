"""C12 result self-consistency: statistics, unit changes, companion arrays / stored trajectories / title+label.
Generator spec/metrics/Metrics.tla (families stats, units, rpe reused), P = MetricsProps via Trace_Metrics."""
import random

import core
import metricsexec
from drivers import metrics_common as mc


def _paths(tr):
    out, acc = [0], 0
    for a, b in zip(tr, tr[1:]):
        d2 = sum((x - y) ** 2 for x, y in zip(a["p"], b["p"]))
        r = int(round(d2 ** 0.5))
        if r * r != d2:
            return None
        acc += r
        out.append(acc)
    return out


def run(rep, tier, seed):
    rng = random.Random(seed)
    import evo.main_ape  # noqa: F401
    import evo.main_rpe  # noqa: F401
    # ---- statistics and unit machine
    cases = mc.gen(rep, ["MC_metrics_stats.cfg", "MC_metrics_units.cfg"])
    for k in range(100 if tier == "quick" else 2000):
        cases.append({"fam": "stats", "e": [rng.randint(0, 40) for _ in range(rng.randint(1, 60))]})
    obs = core.pmap(lambda j: None, [], 1) or []
    sjobs = [(n, c, seed) for n, c in enumerate(cases)]
    obs = [metricsexec.exec_stats(j) if j[1]["fam"] == "stats" else metricsexec.exec_units(j) for j in sjobs]
    # ---- companion arrays from ape() / rpe() on the RPE family's trajectories
    rp = mc.gen(rep, ["MC_metrics_rpe.cfg" if tier == "quick" else "MC_metrics_rpe_thorough.cfg"])
    rng.shuffle(rp)
    comp = []
    for c in rp[:1500 if tier == "quick" else 20000]:
        ep, rpth = _paths(c["est"]), _paths(c["ref"])
        if ep is None or rpth is None:
            continue
        n = len(c["est"])
        stamps = [0]
        for _ in range(n - 1):
            stamps.append(stamps[-1] + rng.choice([1, 2, 5]))
        metric = "rpe" if len(comp) % 3 else "ape"
        rel = c["rel"] if not (metric == "ape" and c["rel"] == "ratio") else "trans"
        native = {"trans": "m", "pdist": "m", "deg": "deg", "rad": "rad"}.get(rel)
        change = "none"
        if native and rng.random() < 0.6:
            change = rng.choice({"m": ["mm", "cm", "km", "m"], "deg": ["rad", "deg"], "rad": ["deg"]}[native])
        comp.append({"fam": "comp", "metric": metric, "rel": rel, "ref": c["ref"], "est": c["est"], "stamps": stamps, "estpath": ep, "refpath": rpth,
                     "change": change, "q": c["q"], "fromref": c["fromref"]})
    cobs = core.pmap(metricsexec.exec_companion, [(n, c, seed) for n, c in enumerate(comp)], chunksize=50)
    cases, obs = cases + comp, obs + cobs
    for c, o in zip(cases, obs):
        if c["fam"] != "comp" or o["out"] == "ok":
            rep.nontriv(c)

    def probes(traces):
        st = lambda t: t["c"]["fam"] == "stats" and len(t["c"]["e"]) >= 3  # noqa: E731
        def std(p):
            e = p["c"]["e"]
            n = len(e)
            p["o"]["std2"] = [n * sum(x * x for x in e) - sum(e) ** 2 + 1, n * (n - 1) if n > 1 else 1]     # ddof = 1
        un = lambda t: t["c"]["fam"] == "units" and t["c"]["from"] == "m" and t["c"]["to"] == "km"  # noqa: E731
        def inv(p):
            p["o"]["k10"] = -p["o"]["k10"]
        def stale(p):
            p["o"]["stats_follow"] = False
        cp = lambda t: t["c"]["fam"] == "comp" and t["c"]["metric"] == "rpe" and t["o"]["out"] == "ok" and len(t["o"]["ts"]) >= 2  # noqa: E731
        def shift(p):
            p["o"]["ts"] = p["o"]["ts"][1:] + p["o"]["ts"][:1]
        def title(p):
            p["o"]["title_ok"] = False
        return mc.probe(traces, st, std, "ddof") + mc.probe(traces, un, inv, "factor") + mc.probe(traces, un, stale, "stale") + mc.probe(traces, cp, shift, "ts") + mc.probe(traces, cp, title, "title")
    mc.judge(rep, cases, obs, probes, lambda c: {"fam": c["fam"], "metric": c.get("metric", "-"), "rel": c.get("rel", "-"),
                                                 "from": c.get("from", "-"), "to": c.get("to", "-")}, seed)
    rep.rule = ("statistics: TLC enumerates all integer arrays of length 1..5 over 0..3 (and proves the stated inequalities for the definitions) + "
                "random arrays up to 60 values, executed with 3 magnitudes; units: all 100 ordered unit pairs; companion arrays: ape()/rpe() on the "
                "lattice trajectories of the RPE family with random stamps and unit changes; all judged by MetricsProps in TLC")
    rep.assumptions = ["statistics compared as exact rationals (alpha: limit_denominator, 1e-9); conversion factors as 10^k (180/pi)^p",
                       "for RPE the distance arrays are only required to have one entry per value (the statement does not fix their origin)"]


def selftest(rep):
    return True


def replay(rep, path):
    import json
    d = json.load(open(path))["detail"]
    fn = {"stats": metricsexec.exec_stats, "units": metricsexec.exec_units, "comp": metricsexec.exec_companion}[d["case"]["fam"]]
    o = fn((d["n"], d["case"], d["seed"]))
    print("observed:", o)
    rej = core.validate("metrics", "Trace_Metrics", [{"id": "replay", "c": d["case"], "o": o, "_single": True}], workers=2)
    if rej:
        print("VIOLATION property=C12 replay=%s clause=%s" % (path, rej[0][1]))
        return 1
    print("replay accepted by P")
    return 0

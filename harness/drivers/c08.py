"""C08 trajectory operations keep all views consistent.  M = spec/trajectory/Trajectory.tla (all histories
over the operation alphabet to a bounded depth, cache model, ViewsConsistent), replayed on real objects;
P = TrajectoryProps via Trace_Trajectory."""
import json
import random

import core
import geom
import trajexec

UNITS = [1.0, 0.25, 1024.0]


def _run_case(args):
    n, case, seed = args
    gm = trajexec.Gamma(UNITS[(n + seed) % 3], geom.CLOCKS[(n // 3 + seed) % len(geom.CLOCKS)])
    ev, caches = trajexec.run_history(case, gm, "se3" if n % 2 else "pq")
    return {"id": "h%d" % n, "kind": case["kind"], "built": case["built"], "ev": ev, "caches": caches,
            "gamma": [gm.u, gm.clock.t0, gm.clock.dt]}


def histories(cfg, rep, workers=None):
    r = core.tlc("trajectory", "Trajectory", cfg, workers=workers)
    rep.add_tlc(r)
    return r.printed_json()


def simulated(rep, num, depth, seed):
    """deep behaviours: TLC -simulate on the cache model; every state TLC generates on the way (the chosen successors and their
    siblings) carries a real history; the deep ones are replayed"""
    import random
    r = core.tlc("trajectory", "Trajectory", "MC_traj_sim.cfg", workers=1, simulate="num=%d" % num, extra=["-depth", str(depth), "-seed", str(seed + 1)])
    rep.add_tlc(r)
    seen, out = set(), []
    for c in r.printed_json():
        if len(c["h"]) < 5:
            continue
        k = json.dumps(c, sort_keys=True)
        if k not in seen:
            seen.add(k)
            out.append(c)
    random.Random(seed).shuffle(out)
    return out[:40000]


def judge(rep, traces, cases, pid="C08"):
    probes = _probes(traces)
    rejects = core.validate("trajectory", "Trace_Trajectory", traces + probes)
    rej = {x[0] for x in rejects}
    missing = [p["id"] for p in probes if p["id"] not in rej]
    if missing or not probes:
        core.probe_fail(rejects, "P accepted corrupted traces: %s" % missing)
    rep.extra["probes_rejected"] = len(probes)
    rep.traces += len(traces)
    by_id = {t["id"]: t for t in traces}
    for tid, clause, rest in rejects:
        if tid.startswith("probe"):
            continue
        t = by_id[tid]
        ops = [e["op"]["name"] for e in t["ev"]]
        rep.violation({"clause": clause, "at_op": rest[1] if len(rest) > 1 else "?", "built": t["built"], "kind": t["kind"],
                       "ops": "/".join(ops[:-1])},
                      {"history": [e["op"] for e in t["ev"][:-1]], "built": t["built"], "kind": t["kind"],
                       "gamma": t["gamma"], "trace": t["ev"], "failing_event": rest[0] if rest else None})


def run(rep, tier, seed):
    rng = random.Random(seed)
    cases = histories("MC_traj_quick.cfg", rep)                 # every history of depth 3 over the full alphabet
    if tier == "thorough":
        cases += histories("MC_traj_thorough.cfg", rep)          # every history of depth 4 over the core alphabet
        cases += simulated(rep, 400, 9, seed)                    # random deep behaviours (TLC -simulate) of the cache model
    if len(cases) < 1000:
        raise core.MachineryError("Trajectory model emitted only %d histories" % len(cases))
    rep.extra["m_histories"] = len(cases)
    for b in ("scale_skips_pos", "project_no_flush"):
        rb = core.tlc("trajectory", "Trajectory", "MC_traj_bug_%s.cfg" % b, expect_ok=False, workers=8)
        if rb.rc != 12:
            raise core.MachineryError("seeded model bug %s not refuted" % b)
    import evo.core.trajectory  # noqa: F401  (import before forking)
    traces = core.pmap(_run_case, [(n, c, seed) for n, c in enumerate(cases)], chunksize=200)
    drift = 0
    for t, c in zip(traces, cases):
        if t["caches"] != c["caches"]:
            drift += 1
            if drift <= 3:
                rep.drifted("history %s (%s): caches present %s, model %s" % (
                    [o["name"] for o in c["h"]], c["built"], t["caches"], c["caches"]))
        names = [o["name"] for o in c["h"]]
        if any(not n.startswith("Read") for n in names):
            rep.nontriv([c["built"], c["kind"], c["h"]])
    rep.drift = drift
    slim = [{"id": t["id"], "kind": t["kind"], "ev": t["ev"]} for t in traces]
    for s, t in zip(slim, traces):
        s["built"], s["gamma"] = t["built"], t["gamma"]
    judge(rep, slim, cases)
    for t in slim[:1] + slim[len(slim) // 2:len(slim) // 2 + 1]:
        rep.sample({"built": t["built"], "kind": t["kind"], "gamma": t["gamma"], "events": t["ev"]})
    rep.rule = ("every history of length MaxDepth over the operation alphabet of Trajectory.tla (reads of each view, "
                "left/right/propagating/Sim(3) transforms, scale, reduce, downsample, motion filter, crop, 4 alignment "
                "modes, projection, deepcopy), for both construction kinds, with and without timestamps, executed on real "
                "PosePath3D/PoseTrajectory3D objects (3 lattice units, 5 clocks) and judged by TrajectoryProps in TLC; "
                "non-trivial = distinct histories containing a mutating operation")
    rep.assumptions = ["poses on O24 x Z^3 (axis-permuting rotations, integer positions in dyadic units); alpha tolerance 1e-6..1e-7",
                       "alignment only on the noise-free similarity family; motion filter only with integer step lengths and untied thresholds",
                       "orientation after projecting a pose that is not a rotation about the plane normal is unconstrained (FREE)"]


def _probes(traces):
    import copy
    out = []
    for n, t in enumerate(traces[:3]):
        p = copy.deepcopy(t)
        p["id"] = "probe.pos%d" % n
        p["ev"][-1]["obs"]["pos"][0][0] += 1
        out.append(p)
        p = copy.deepcopy(t)
        p["id"] = "probe.quat%d" % n
        p["ev"][-1]["obs"]["rotq"][-1] = p["ev"][-1]["obs"]["rotq"][-1] % 24 + 1
        out.append(p)
        p = copy.deepcopy(t)
        p["id"] = "probe.check%d" % n
        p["ev"][-1]["obs"]["check"] = False
        out.append(p)
        p = copy.deepcopy(t)
        p["id"] = "probe.xview%d" % n
        p["ev"][-1]["obs"]["xview"] = False
        out.append(p)
    return out


def selftest(rep):
    ok = True
    for b in ("scale_skips_pos", "reduce_skips_quat", "project_no_flush", "transform_keeps_quat"):
        rb = core.tlc("trajectory", "Trajectory", "MC_traj_bug_%s.cfg" % b, expect_ok=False, workers=8)
        print("model bug %s refuted: %s" % (b, rb.rc == 12))
        ok &= rb.rc == 12
    return ok


def replay(rep, path):
    body = json.load(open(path))
    d = body["detail"]
    gm = trajexec.Gamma(d["gamma"][0], geom.Clock(d["gamma"][1], d["gamma"][2]))
    ev, _ = trajexec.run_history({"built": d["built"], "kind": d["kind"], "h": d["history"]}, gm)
    for e in ev:
        print(e)
    rej = core.validate("trajectory", "Trace_Trajectory", [{"id": "replay", "kind": d["kind"], "ev": ev}])
    if rej:
        print("VIOLATION property=%s replay=%s clause=%s" % (rep.pid, path, rej[0][1]))
        return 1
    print("replay accepted by P")
    return 0

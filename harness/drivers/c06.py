"""C06 lossless write/read round trips.  Shapes enumerated by spec/fileio/FileIO.tla (family roundtrip); payloads are adversarial
float64 values (17 significant digits, 1e+-300, subnormal, -0.0, epoch stamps with ns fractions, nextafter neighbours);
P = FileIOProps!RoundTripVerdict via Trace_FileIO (token identity per slot, by bit pattern)."""
import copy

import core
import fileexec
from drivers import c07


def run(rep, tier, seed):
    shapes = c07.families(rep, tier, ["roundtrip"])
    inst = 12 if tier == "quick" else 60
    cases = [dict(c) for k in range(inst) for c in shapes]
    import evo.tools.file_interface  # noqa: F401
    import evo.tools.pandas_bridge  # noqa: F401
    try:
        from rosbags.rosbag1 import Writer  # noqa: F401
        have_bag = True
    except Exception:  # noqa: BLE001
        have_bag = False
        cases = [c for c in cases if c["fmt"] != "bag"]
        rep.note("rosbags not importable: ROS1 bag round trip skipped")
    obs = core.pmap(fileexec.exec_roundtrip, [(n, c, seed) for n, c in enumerate(cases)], chunksize=10)
    for n, (c, o) in enumerate(zip(cases, obs)):
        rep.nontriv([c, n % len(fileexec.specials())])
    # long payloads (files of 1.5 .. 20 MB): readers / writers must not switch to a lossy path for large files
    sizes = [8000] if tier == "quick" else [8000, 30000, 100000]
    big = [{"fam": "roundtrip", "fmt": f, "n": n, "built": b, "src": src, "kind": k}
           for n in sizes for f, k, b in (("tum", "traj", "pq"), ("kitti", "path", "se3")) for src in (("path",) if tier == "quick" else ("path", "handle"))]
    big += [{"fam": "roundtrip", "fmt": "res_traj", "n": sizes[0], "built": "pq", "src": "path", "kind": "traj"},
            {"fam": "roundtrip", "fmt": "df", "n": sizes[0], "built": "pq", "src": "path", "kind": "traj"}]
    cases += big
    obs += core.pmap(fileexec.exec_roundtrip, [(10 ** 4 + i, c, seed) for i, c in enumerate(big)], chunksize=1)
    rep.extra["long_payload_poses"] = sizes
    if have_bag:        # the bag export of evo_traj (two topics with different frame ids)
        import evo.main_traj  # noqa: F401
        cb = [{"fam": "roundtrip", "fmt": "bag", "n": 2 * k, "built": "pq", "src": "cli", "kind": "traj"} for k in ((3, 4) if tier == "quick" else (1, 2, 3, 4, 7, 50))]
        cases += cb
        obs += core.pmap(fileexec.exec_cli_bag, [(20000 + i, c, seed) for i, c in enumerate(cb)], chunksize=1)

    def probes(traces):
        g = next(t for t in traces if t["o"]["out"] == "ok")
        p = copy.deepcopy(g)
        p["id"] = "probe.lost"
        p["o"]["lost"] = 1
        q = copy.deepcopy(g)
        q["id"] = "probe.n"
        q["o"]["n"] += 1
        return [p, q]
    c07.judge(rep, "C06", cases, obs, probes)
    rep.extra["payload_values"] = len(fileexec.specials())
    rep.extra["bag_checked"] = have_bag
    rep.rule = ("TLC enumerates the round-trip shapes (TUM, KITTI, result archive with/without embedded trajectory or path, DataFrame, ROS1 bag x 1..3 "
                "poses x storage mode x path/handle x trajectory/path); each shape is instantiated %d times with rotating adversarial float64 "
                "payloads in every slot (stamps incl. 0.0,1.0,2.0 and sub-nanosecond values), written and re-read by evo, and every slot is "
                "compared by bit pattern; unicode info strings; bag stamps within 1 ns by exact rational arithmetic" % inst)
    rep.assumptions = ["float64 values are sampled (35 adversarial representatives), not all 2^64 patterns"]


def selftest(rep):
    return True


def replay(rep, path):
    return c07.replay(rep, path)

"""C19 settings file life-cycle.  M = spec/settingsfs/SettingsFS.tla (exhaustive TLC: all interleavings
of 2-3 starting processes, a crash at every step), bound to the code by stepping REAL evo processes
primitive by primitive (harness/vproc.py): every crash point of every operation, and TLC-generated
two-process schedules.  P is evaluated on the observed disk state after every primitive."""
import random
import re
from concurrent.futures import ThreadPoolExecutor

import core
import vproc

SEQ = [("fresh", "none"), ("dironly", "none"), ("upgrade", "none"), ("ready", "none"), ("ready", "reset"),
       ("ready", "set"), ("ready", "resetsub"), ("ready", "merge"), ("upgrade", "set"), ("fresh", "reset"), ("ready", "resetcli")]


def crash_run(scenario, op, k, second_crash=None):
    """p1 performs k primitives and is killed; p2 starts afterwards (optionally killed too, then p3)."""
    w = vproc.World(scenario, {"p1": op, "p2": "none" if second_crash is None else op, "p3": "none"})
    try:
        w.start("p1")
        n = 0
        for _ in range(k):
            if w.step("p1") is None:
                break
            n += 1
        crashed = w.crash("p1") is not None
        w.start("p2")
        if second_crash is not None:
            for _ in range(second_crash):
                if w.step("p2") is None:
                    break
            w.crash("p2")
            w.start("p3")
            w.run_to_end("p3")
        else:
            w.run_to_end("p2")
        return w.trace("crash:%s:%s:%d:%s" % (scenario, op, k, second_crash)), crashed
    finally:
        w.close()


def full_len(scenario, op):
    w = vproc.World(scenario, {"p1": op})
    try:
        w.start("p1")
        n = w.run_to_end("p1")
        return n, w.trace("full:%s:%s" % (scenario, op))
    finally:
        w.close()


def schedule_run(scenario, ops, sched, tid):
    """replay a TLC-generated schedule: list of (pid, op-name-predicted-by-M)"""
    w = vproc.World(scenario, ops)
    try:
        for pid, mop in sched:
            if mop == "start":
                w.start(pid)
            elif mop == "crash":
                w.crash(pid)
            else:
                w.step(pid)
        for pid in list(w.children):      # let everybody finish (the schedule may be a prefix)
            w.run_to_end(pid)
        return w.trace(tid)
    finally:
        w.close()


def tlc_schedules(scenario, cfg, num, depth, seed):
    r = core.tlc("settingsfs", "SettingsFS", cfg, workers=1, simulate="num=%d" % num,
                 extra=["-depth", str(depth), "-seed", str(seed)])
    scheds, cur, prev = [], None, 0
    for f in r.tuples("H"):
        level, p, o = f[1], f[2], f[3]
        if level == 1:
            prev = 1
            continue
        if level <= prev or cur is None:      # a new behaviour starts (its initial state is not printed again)
            if cur:
                scheds.append(cur)
            cur = {"ops": {"p1": f[4], "p2": f[5]}, "steps": []}
        cur["steps"].append((p, o))
        prev = level
    if cur:
        scheds.append(cur)
    return scheds


def graph_cover(scenario, cfg):
    """Every transition of the two-process state graph of SettingsFS.tla (no crashes; `last` kept in the state, so an edge determines
    process and primitive): TLC dumps the graph, a greedy walk yields root-to-leaf paths that together cover every edge."""
    import os
    import tempfile
    d = tempfile.mkdtemp(prefix="graph_", dir=core.workdir())
    core.tlc("settingsfs", "SettingsFS", cfg, workers=1, extra=["-dump", "dot,actionlabels", os.path.join(d, "g")])
    txt = open(os.path.join(d, "g.dot")).read()
    node_re = re.compile(r'^(-?\d+) \[label="((?:[^"\\]|\\.)*)"(,style = filled)?', re.M)
    edge_re = re.compile(r'^(-?\d+) -> (-?\d+) \[label="(\w+)\(\\"(\w+)\\"', re.M)
    info, roots = {}, []
    for m in node_re.finditer(txt):
        lab = m.group(2)
        lm = re.search(r'last = \[op \|-> \\"(\w+)\\", p \|-> \\"([\w-]+)\\"', lab)
        om = re.search(r'op = \[p1 \|-> \\"(\w+)\\", p2 \|-> \\"(\w+)\\"\]', lab)
        info[m.group(1)] = (lm.group(1) if lm else "?", om.groups() if om else ("none", "none"))
        if m.group(3):
            roots.append(m.group(1))
    succ = {}
    for m in edge_re.finditer(txt):
        succ.setdefault(m.group(1), []).append((m.group(2), m.group(4)))
    for v in succ.values():
        v.sort()
    unvisited = {(a, b) for a, outs in succ.items() for b, _ in outs}
    total = len(unvisited)
    # reach[n]: an unvisited edge is reachable from n (recomputed lazily by walking)
    paths = []
    import sys
    sys.setrecursionlimit(10000)

    def has_unvisited(n, memo):
        if n in memo:
            return memo[n]
        memo[n] = False
        r = any((n, b) in unvisited or has_unvisited(b, memo) for b, _ in succ.get(n, []))
        memo[n] = r
        return r
    while unvisited:
        progressed = False
        for root in roots:
            memo = {}
            if not has_unvisited(root, memo):
                continue
            n, steps = root, []
            while succ.get(n):
                outs = succ[n]
                nxt = next(((b, p) for b, p in outs if (n, b) in unvisited), None) or \
                    next(((b, p) for b, p in outs if has_unvisited(b, memo)), None) or outs[0]
                unvisited.discard((n, nxt[0]))
                steps.append((nxt[1], info[nxt[0]][0]))
                n = nxt[0]
            paths.append({"ops": {"p1": info[root][1][0], "p2": info[root][1][1]}, "steps": steps})
            progressed = True
        if not progressed:
            break
    import shutil
    shutil.rmtree(d, ignore_errors=True)
    return paths, total


def run(rep, tier, seed):
    rng = random.Random(seed)
    # ---- M |= P exhaustively (design level) and the pre-fix protocol refuted (sensitivity)
    suffix = "_q" if tier == "quick" else ""
    for sc in ("fresh", "upgrade", "ready"):
        r = core.tlc("settingsfs", "SettingsFS", "MC_%s_atomic%s.cfg" % (sc, suffix))
        rep.add_tlc(r)
        rep.extra["M_%s_states" % sc] = r.distinct
    r = core.tlc("settingsfs", "SettingsFS", "MC_fresh_legacy.cfg", expect_ok=False)
    if r.rc != 12:
        raise core.MachineryError("legacy protocol not refuted by TLC (rc=%d)" % r.rc)
    rep.extra["legacy_protocol_refuted"] = True

    # ---- real processes: every crash point of every operation
    jobs = []
    lens = {}
    with ThreadPoolExecutor(core.NCPU) as ex:
        for (sc, op), (n, tr) in zip(SEQ, ex.map(lambda a: full_len(*a), SEQ)):
            lens[(sc, op)] = n
        for (sc, op) in SEQ:
            for k in range(0, lens[(sc, op)]):
                jobs.append((sc, op, k, None))
        if tier == "thorough":
            for (sc, op) in SEQ:
                for k in range(0, lens[(sc, op)], 2):
                    for k2 in range(1, 24, 3):
                        jobs.append((sc, op, k, k2))
        else:
            for (sc, op) in SEQ[:3]:
                for _ in range(6):
                    jobs.append((sc, op, rng.randrange(lens[(sc, op)]), rng.randrange(1, 20)))
        res = list(ex.map(lambda a: crash_run(*a), jobs))
        traces = [t for t, _ in res]
        rep.extra["crash_points"] = sum(1 for _, c in res if c)
        # ---- real processes: TLC-generated interleavings of two concurrent starters
        nsched = 40 if tier == "quick" else 400
        sjobs = []
        for sc in ("fresh", "upgrade", "ready"):
            for cfg, n in (("MC_%s_sim0.cfg" % sc, nsched), ("MC_%s_sim.cfg" % sc, nsched // 2)):
                for i, s in enumerate(tlc_schedules(sc, cfg, n, 90, seed + 1)):
                    sjobs.append((sc, s["ops"], s["steps"], "sched:%s:%s:%d" % (sc, cfg, i)))
        # ---- every transition of the two-process state graphs (edge cover)
        gjobs, edges = [], 0
        for sc in ("fresh", "upgrade", "ready"):
            paths, total = graph_cover(sc, "MC_%s_graph.cfg" % sc)
            edges += total
            if tier == "quick":
                rng.shuffle(paths)
                paths = paths[:25]
            for i, pth in enumerate(paths):
                gjobs.append((sc, pth["ops"], pth["steps"], "graph:%s:%d" % (sc, i)))
        rep.extra["graph_edges"] = edges
        rep.extra["graph_paths_replayed"] = len(gjobs)
        traces += list(ex.map(lambda a: schedule_run(*a), sjobs + gjobs))
        rep.extra["schedules"] = len(sjobs)
    judge(rep, traces)
    rep.rule = ("real evo processes stepped one FS primitive at a time: (a) every crash point k of %d operation/scenario "
                "combinations followed by fresh starts, (b) two concurrent starters under TLC-simulated schedules of "
                "SettingsFS.tla; after EVERY primitive the bytes of settings.json are classified and P is evaluated; "
                "non-trivial = distinct traces in which a process was killed or two processes interleaved" % len(SEQ))
    rep.assumptions = ["a kill happens between two FS primitives (Python-level state is irrelevant after SIGKILL)",
                       "buffered bytes reach the disk when the file is closed; the close is split into two partial writes",
                       "exhaustive interleaving claim = TLC on SettingsFS.tla (M |= P) + conformance of observed primitive sequences to M"]
    rep.level = "model_checking"


def judge(rep, traces):
    for t in traces:
        if any(e["op"] == "crash" for e in t["ev"]) or len({e["p"] for e in t["ev"]}) > 1:
            rep.nontriv([t["scenario"], [(e["p"], e["op"], e["path"], e["res"], e["cfg"]) for e in t["ev"]]])
    rep.traces = len(traces)
    rep.evaluations = sum(len(t["ev"]) for t in traces)
    # P alone on the observations
    probes = _probes(traces)
    rejects = core.validate("settingsfs", "Trace_SettingsFS_P", [dict(t, ev=t["ev"]) for t in traces + probes] and
                            [{"id": t["id"], "ev": t["ev"]} for t in traces + probes], workers=4,
                            ) if False else _validate_p(traces + probes)
    rej_ids = {r[0] for r in rejects}
    missing = [p["id"] for p in probes if p["id"] not in rej_ids]
    if missing or not probes:
        core.probe_fail(rejects, "P accepted corrupted traces: %s" % missing)
    rep.extra["probes_rejected"] = len(probes)
    by_id = {t["id"]: t for t in traces}
    for tid, clause, rest in rejects:
        if tid.startswith("probe"):
            continue
        t = by_id[tid]
        k = rest[0] if rest else 0
        ev = t["ev"][k - 1] if 0 < k <= len(t["ev"]) else {}
        rep.violation({"clause": clause, "scenario": t["scenario"], "at_op": ev.get("op"), "at_path": ev.get("path"),
                       "observed": rest[1] if len(rest) > 1 else None},
                      {"trace": t, "failing_event_index": k})
    # conformance to M (drift only)
    ok = 0
    for sc in ("fresh", "dironly", "upgrade", "ready"):
        part = [t for t in traces if t["scenario"] == sc]
        if not part:
            continue
        import json
        import os
        f = os.path.join(core.workdir(), "tr_%s.json" % sc)
        json.dump(part, open(f, "w"))
        r = core.tlc("settingsfs", "Trace_SettingsFS", "Trace_%s.cfg" % sc, env={"TRACE_FILE": f}, workers=4)
        reach = {}
        for fld in r.tuples("AT"):
            reach[fld[1]] = max(reach.get(fld[1], 0), fld[2])
        for t in part:
            if reach.get(t["id"], 0) == len(t["ev"]) + 1:
                ok += 1
            elif t["id"] in rej_ids:
                pass
            else:
                k = reach.get(t["id"], 1)
                ev = t["ev"][k - 1] if k - 1 < len(t["ev"]) else {}
                rep.drifted("%s: event %d %s is not a step of SettingsFS.tla" % (t["id"], k, ev))
    rep.extra["traces_conforming_to_M"] = ok
    for t in traces[:1] + traces[-1:]:
        rep.sample({"id": t["id"], "ops": t["ops"], "ev": [[e["p"], e["op"], e["path"], e["res"], e["ver"], e["cfg"]] for e in t["ev"]]})


def _validate_p(traces):
    import json
    import os
    f = os.path.join(core.workdir(), "trp.json")
    json.dump([{"id": t["id"], "ev": t["ev"]} for t in traces], open(f, "w"))
    r = core.tlc("settingsfs", "Trace_SettingsFS_P", "Trace_SettingsFS_P.cfg", env={"TRACE_FILE": f}, workers=4)
    if r.distinct != 2 * len(traces):
        raise core.MachineryError("P validation: %d states for %d traces" % (r.distinct, len(traces)))
    return [(t[1], t[2], t[3:]) for t in r.tuples("REJECT")]


def _probes(traces):
    import copy
    out = []
    base = [t for t in traces if len(t["ev"]) > 8][:2]
    for n, t in enumerate(base):
        p = copy.deepcopy(t)
        p["id"] = "probe.empty%d" % n
        p["ev"][5]["cfg"] = "empty"
        out.append(p)
        p = copy.deepcopy(t)
        p["id"] = "probe.fail%d" % n
        p["ev"].append({"p": "p9", "op": "exit", "path": "-", "res": "JSONDecodeError", "keys": "-", "ver": "cur", "cfg": "full"})
        out.append(p)
        p = copy.deepcopy(t)
        p["id"] = "probe.keys%d" % n
        p["ev"].append({"p": "p9", "op": "exit", "path": "-", "res": "ok", "keys": "missing", "ver": "cur", "cfg": "full"})
        out.append(p)
    return out


def selftest(rep):
    ok = True
    for sc in ("fresh", "upgrade", "ready"):
        r = core.tlc("settingsfs", "SettingsFS", "MC_%s_legacy.cfg" % sc, expect_ok=False)
        print("legacy %s refuted: rc=%d" % (sc, r.rc))
        ok &= r.rc == 12
    return ok


def replay(rep, path):
    import json
    body = json.load(open(path))
    t = body["detail"]["trace"]
    sched = [(e["p"], e["op"]) for e in t["ev"]]
    rej = []
    for attempt in range(4):        # the harness alternates temp-directory placement and old-version strings between worlds
        tr = schedule_run(t["scenario"], {p: o for p, o in t["ops"].items()}, sched, "replay")
        rej = _validate_p([tr])
        if rej:
            break
    for e in tr["ev"]:
        print(e)
    if rej:
        print("VIOLATION property=C19 replay=%s clause=%s" % (path, rej[0][1]))
        return 1
    print("replay accepted by P")
    return 0

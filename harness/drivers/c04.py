"""C04 trajectory alignment.  M = spec/align/Align.tla (noise-free similarity family: all rotations x translations x scales
x modes x n), P = AlignProps via Trace_Align; recorded result matrices of ape()/rpe(); candidate-family optimality on noisy data."""
import copy
import math
import random

import numpy as np

import core
import geom
import trajexec

TU = 64


FAR = np.array([2.0 ** 21, -2.0 ** 21, 2.0 ** 21])      # far enough that a shift by (4,-8,12) is within 1e-5 relative


def _build(poses, built, u, kind="path", far=False):
    t = trajexec.build([(p["r"], p["p"]) for p in poses], list(range(len(poses))), built, trajexec.Gamma(u), kind)
    if far:      # same poses at UTM-like coordinates (a pure translation of both trajectories)
        t.transform(geom.se3(np.eye(3), FAR * u))
    return t


def _poses(t, gm, far=False):
    if far:
        t = copy.deepcopy(t)
        t.transform(geom.se3(np.eye(3), -FAR * gm.u))
    posm, rotm = trajexec.read_se3(t, gm)
    pos = trajexec.read_pos(t, gm)
    rq = trajexec.read_quat(t)
    out = []
    for k in range(len(posm)):
        ok = posm[k] == pos[k] and rotm[k] == rq[k]
        out.append({"r": rotm[k] if ok else -1, "p": posm[k] if ok else list(trajexec.OFF)})
    return out


def _ret(r, t, s, u, mag=0.0):
    """alpha of the returned (R, t, s); t = mean_y - s R mean_x carries the rounding of R times the coordinate magnitude"""
    tt = np.asarray(t, dtype=float) / (u / TU)
    tr = np.round(tt)
    f = geom.frac(float(s), 1 << 10)
    tol = max(1e-5, 1e-9 * mag / (u / TU))      # measured: 4e-5 lattice units at 2^21 (rotation noise 6e-12 after a first alignment)
    return {"r": geom.alpha_rot_index(np.asarray(r)), "t": [int(v) for v in tr] if np.max(np.abs(tt - tr)) < tol else [77777] * 3,
            "s": f if f else [-1, 1]}


def exec_align(job):
    from evo.core.geometry import GeometryException
    n, c, seed = job
    u = [1.0, 0.25, 1024.0][(n + seed) % 3]
    gm = trajexec.Gamma(u)
    kind = "traj" if n % 2 else "path"
    far = bool(c.get("far"))
    ref = _build(c["ref"], "se3" if n % 3 else "pq", u, kind, far)
    est = _build(c["est"], "pq" if (n // 3) % 2 else "se3", u, kind, far)
    pre = (n // 6) % 3
    if pre == 1:
        _ = est.positions_xyz, ref.poses_se3
    elif pre == 2:
        _ = est.poses_se3, est.orientations_quat_wxyz
    snap = geom.snapshot(ref)
    o = {"out": "ok"}
    try:
        def call():
            if c["mode"] == "origin":
                est.align_origin(ref)
                return None
            # n as a numpy integer in every other case (e.g. the result of a searchsorted), scale-only requested the way ape() / rpe() do
            nn = np.int64(c["n"]) if n % 2 else c["n"]
            return est.align(ref, correct_scale=(c["mode"] == "sim" or (c["mode"] == "scale" and (n // 2) % 2 == 1)),
                             correct_only_scale=(c["mode"] == "scale"), n=nn)
        r1 = call()
        o["after"] = _poses(est, gm, far)
        r2 = call()
        o["after2"] = _poses(est, gm, far)
        ident = {"r": 1, "t": [0, 0, 0], "s": [1, 1]}
        mag = float(np.max(np.abs(FAR))) * u if far else 0.0
        o["ret"] = _ret(*r1, u, mag) if r1 is not None else ident
        o["ret2"] = _ret(*r2, u, mag) if r2 is not None else ident
    except GeometryException:
        o = {"out": "GeometryException", "after": [], "after2": [], "ret": {"r": -1, "t": [0, 0, 0], "s": [1, 1]}, "ret2": {"r": -1, "t": [0, 0, 0], "s": [1, 1]}}
    except Exception as e:  # noqa: BLE001
        o = {"out": type(e).__name__, "after": [], "after2": [], "ret": {"r": -1, "t": [0, 0, 0], "s": [1, 1]}, "ret2": {"r": -1, "t": [0, 0, 0], "s": [1, 1]}}
    o["refsame"] = geom.snapshot(ref) == snap or all(v == snap.get(k, v) for k, v in geom.snapshot(ref).items() if k in snap)
    return o


def exec_result(job):
    """ape()/rpe() on the noise-free family: the recorded matrix must map the unaligned estimate onto the stored one"""
    from evo import main_ape, main_rpe
    from evo.core import metrics
    n, c, flags, seed = job
    u = [1.0, 0.25][(n + seed) % 2]
    gm = trajexec.Gamma(u)
    ref = _build(c["ref"], "se3", u, "traj")
    est = _build(c["est"], "pq" if n % 2 else "se3", u, "traj")
    kw = dict(align="a" in flags, correct_scale="s" in flags, align_origin="o" in flags)
    try:
        if n % 2:
            res = main_ape.ape(ref, est, metrics.PoseRelation.translation_part, **kw)
        else:
            res = main_rpe.rpe(ref, est, metrics.PoseRelation.translation_part, 1.0, metrics.Unit.frames, **kw)
        T = np.asarray(res.np_arrays["alignment_transformation_sim3"])
        s = float(np.cbrt(np.linalg.det(T[:3, :3])))
        stored = res.trajectories["estimate"]
        return {"out": "ok", "T": _ret(T[:3, :3] / s, T[:3, 3], s, u) if np.array_equal(T[3], [0, 0, 0, 1]) else {"r": -1, "t": [0, 0, 0], "s": [1, 1]},
                "stored": _poses(stored, gm)}
    except Exception as e:  # noqa: BLE001
        return {"out": type(e).__name__, "T": {"r": -1, "t": [0, 0, 0], "s": [1, 1]}, "stored": []}


def exec_opt(job):
    from evo.core.geometry import GeometryException
    from evo.core.trajectory import PosePath3D
    n, c = job
    x, y = np.array(c["x"], dtype=float), np.array(c["y"], dtype=float)
    N = len(x)
    quat = np.tile([1.0, 0, 0, 0], (N, 1))
    if (n // 4) % 2:        # integer coordinates handed over as integer arrays
        est, ref = PosePath3D(x.astype(np.int64), quat.copy()), PosePath3D(y.astype(np.int64), quat.copy())
    else:
        est, ref = PosePath3D(x.copy(), quat.copy()), PosePath3D(y.copy(), quat.copy())
    before = float(np.sum((x - y) ** 2))
    try:
        if (n // 2) % 2:
            r, t, s = est.align(ref, correct_scale=c["scale"], n=-1)       # "all poses", as evo_ape / evo_rpe / evo_traj pass it
        else:
            r, t, s = est.align(ref, correct_scale=c["scale"])
    except GeometryException:
        return {"out": "GeometryException", "proper": True, "sseAfter64": 0, "sseBefore64": 0}
    except Exception as e:  # noqa: BLE001
        return {"out": type(e).__name__, "proper": True, "sseAfter64": 0, "sseBefore64": 0}
    after = float(np.sum((np.asarray(est.positions_xyz) - y) ** 2))
    proper = bool(np.max(np.abs(r.T @ r - np.eye(3))) < 1e-9 and abs(np.linalg.det(r) - 1) < 1e-9 and s > 0)
    return {"out": "ok", "proper": proper, "sseAfter64": int(math.floor(64 * N * N * after + 1e-6)),
            "sseBefore64": int(math.floor(64 * N * N * before + 1e-6))}


def exec_nearunit(job):
    """est = (1 + eps) g ref + t with eps = +-2^-18: similarity alignment, then validity of the aligned poses"""
    from evo.core.trajectory import PosePath3D, PoseTrajectory3D
    n, c = job
    R = geom.o24_matrix(geom.O24[c["g"] % 24])
    eps = (1.0 + 2.0 ** -18) if c["up"] else (1.0 - 2.0 ** -18)
    refp = np.array([[0, 0, 0], [1, 0, 0], [1, 2, 0], [1, 2, 3], [-1, 2, 4], [0, -2, 1]], dtype=float) * c["u"]
    rots = [geom.o24_matrix(geom.O24[(k * 5 + c["g"]) % 24]) for k in range(len(refp))]
    t = np.array([4.0, -8.0, 12.0]) * c["u"]
    ref_poses = [geom.se3(r, p) for r, p in zip(rots, refp)]
    est_poses = [geom.se3(R @ r, eps * (R @ p) + t) for r, p in zip(rots, refp)]
    if c["built"] == "se3":
        est, ref = PosePath3D(poses_se3=est_poses), PosePath3D(poses_se3=ref_poses)
    else:
        qs = lambda ps: np.array([geom.quat_wxyz(tuple(geom.alpha_rot(p[:3, :3]))) for p in ps])  # noqa: E731
        est = PosePath3D(positions_xyz=np.array([p[:3, 3] for p in est_poses]), orientations_quat_wxyz=qs(est_poses))
        ref = PosePath3D(positions_xyz=np.array([p[:3, 3] for p in ref_poses]), orientations_quat_wxyz=qs(ref_poses))
    try:
        est.align(ref, correct_scale=True, n=c["n"])
    except Exception as e:  # noqa: BLE001
        return {"out": type(e).__name__, "valid": False, "fits": False}
    ok = bool(est.check()[0])
    for p in est.poses_se3:
        r3 = np.asarray(p)[:3, :3]
        if np.max(np.abs(r3.T @ r3 - np.eye(3))) > 1e-9 or abs(np.linalg.det(r3) - 1) > 1e-9:
            ok = False
    fits = bool(np.max(np.abs(np.asarray(est.positions_xyz) - refp)) <= 1e-9 * max(1.0, 16 * c["u"])
                and all(np.max(np.abs(np.asarray(p)[:3, :3] - r)) < 1e-9 for p, r in zip(est.poses_se3, rots)))
    return {"out": "ok", "valid": ok, "fits": fits}


def run(rep, tier, seed):
    rng = random.Random(seed)
    r = core.tlc("align", "Align", "MC_align_%s.cfg" % tier, workers=8)
    rep.add_tlc(r)
    cases = [x["c"] for x in r.printed_json()]
    rb = core.tlc("align", "Align", "MC_align_bug.cfg", workers=8, expect_ok=False)
    if rb.rc != 12:
        raise core.MachineryError("model ignoring n not refuted")
    import evo.main_ape  # noqa: F401
    import evo.main_rpe  # noqa: F401
    obs = core.pmap(exec_align, [(n, c, seed) for n, c in enumerate(cases)], chunksize=50)
    traces = []
    meta = {}
    for n, (c, o) in enumerate(zip(cases, obs)):
        tid = "al%d" % n
        traces.append({"id": tid, "what": "align", "c": c, "o": o, "_single": True})
        meta[tid] = ({"mode": c["mode"], "n": c["n"], "s0": c["s0"]}, c, o)
        rep.nontriv([c["mode"], c["n"], c["g1"], c["t1"], c["s0"]])
    # recorded matrices: noise-free cases with n = -1
    full = [c for c in cases if c["n"] == -1 and c["mode"] in ("sim", "rigid")]
    rjobs = []
    for n, c in enumerate(full):
        for flags in (["a"], ["s"], ["a", "s"], ["o"], ["s", "o"]):
            if c["s0"] != 1 and "s" not in flags:
                continue
            if "s" in flags and "a" not in flags and any(v % c["s0"] for p in c["est"] for v in p["p"]):
                continue
            rjobs.append((len(rjobs), c, flags, seed))
    robs = core.pmap(exec_result, rjobs, chunksize=20)
    for (n, c, flags, _), o in zip(rjobs, robs):
        tid = "res%d" % n
        traces.append({"id": tid, "what": "result", "c": {"est": c["est"]}, "o": o, "_single": True})
        meta[tid] = ({"mode": "result:" + "".join(flags), "n": -1, "s0": c["s0"]}, {"est": c["est"], "ref": c["ref"], "flags": flags}, o)
        rep.nontriv(["result", flags, c["g1"], c["t1"], c["s0"]])
    # noisy integer data: candidate-family optimality
    ojobs = []
    for n in range(300 if tier == "quick" else 4000):
        N = rng.randint(3, 4)
        x = [[rng.randint(-2, 2) for _ in range(3)] for _ in range(N)]
        g = geom.o24_matrix(geom.O24[rng.randrange(24)])
        mirror = rng.random() < 0.5
        y = []
        for p in x:
            q = g @ np.array(p)
            if mirror:
                q[2] = -q[2]
            y.append([int(q[i]) + rng.choice([0, 0, 0, 1, -1]) for i in range(3)])
        ojobs.append((n, {"x": x, "y": y, "scale": bool(n % 2)}))
    oobs = core.pmap(exec_opt, ojobs, chunksize=50)
    for (n, c), o in zip(ojobs, oobs):
        tid = "opt%d" % n
        traces.append({"id": tid, "what": "opt", "c": c, "o": o, "_single": True})
        meta[tid] = ({"mode": "opt", "n": -1, "s0": 0}, c, o)
        if o["out"] == "ok":
            rep.nontriv(["opt", c])
    njobs = [(k, {"g": g, "up": bool(k % 2), "u": [1.0, 0.25, 1024.0][k % 3], "built": ["se3", "pq"][(k // 2) % 2], "n": [-1, 4][(k // 4) % 2]})
             for k, g in enumerate(range(24 if tier == "quick" else 96))]
    nobs = core.pmap(exec_nearunit, njobs, chunksize=8)
    for (k, c), o in zip(njobs, nobs):
        tid = "nu%d" % k
        traces.append({"id": tid, "what": "nearunit", "c": c, "o": o, "_single": True})
        meta[tid] = ({"mode": "nearunit", "n": c["n"], "s0": 1}, c, o)
        rep.nontriv(["nearunit", c])
    probes = _probes(traces)
    rejects = core.validate("align", "Trace_Align", traces + probes, workers=8)
    rej = {x[0] for x in rejects}
    missing = [p["id"] for p in probes if p["id"] not in rej]
    if missing or len(probes) < 3:
        core.probe_fail(rejects, "P accepted corrupted traces: %s" % missing)
    rep.extra["probes_rejected"] = len(probes)
    rep.traces = len(traces)
    for tid, clause, _ in rejects:
        if tid.startswith("probe"):
            continue
        keys, c, o = meta[tid]
        rep.violation(dict(keys, clause=clause), {"case": c, "observed": o})
    for t in [traces[0], traces[len(cases)], traces[-1]]:
        rep.sample({k: v for k, v in t.items() if k != "_single"})
    rep.rule = ("noise-free family est = s*g*ref + t on the first n poses (another similarity afterwards): TLC enumerates rotations x "
                "translations x scales {1,2,4} x {rigid, similarity, scale-only, origin} x n in {-1,3,4}; each aligned twice by the real code "
                "(both storage modes, cache histories, 3 units); recorded alignment matrices of ape()/rpe() for -a, -s, -as, origin, -s+origin; "
                "seeded noisy/mirrored integer point sets judged against the 24-rotation candidate family; all verdicts by AlignProps in TLC")
    rep.assumptions = ["noise-free inputs on O24 x Z^3 with scales 1,2,4; returned translation compared in 1/64 lattice units",
                       "optimality on noisy data is a necessary condition only (24 lattice rotations with optimal translation/scale)"]


def _probes(traces):
    out = []
    a = next(t for t in traces if t["what"] == "align" and t["c"]["mode"] == "sim" and t["o"]["out"] == "ok")
    p = copy.deepcopy(a)
    p["id"] = "probe.ret"
    p["o"]["ret"]["t"][0] += TU
    out.append(p)
    p = copy.deepcopy(a)
    p["id"] = "probe.ref"
    p["o"]["refsame"] = False
    out.append(p)
    b = next(t for t in traces if t["what"] == "result" and t["o"]["out"] == "ok")
    p = copy.deepcopy(b)
    p["id"] = "probe.T"
    p["o"]["T"]["s"] = [p["o"]["T"]["s"][0] * 2, p["o"]["T"]["s"][1]]
    out.append(p)
    c = next(t for t in traces if t["what"] == "opt" and t["o"]["out"] == "ok")
    p = copy.deepcopy(c)
    p["id"] = "probe.opt"
    p["o"]["sseAfter64"] = p["o"]["sseBefore64"] + 640
    out.append(p)
    return out


def selftest(rep):
    rb = core.tlc("align", "Align", "MC_align_bug.cfg", workers=8, expect_ok=False)
    return rb.rc == 12


def replay(rep, path):
    import json
    body = json.load(open(path))
    print(json.dumps(body["detail"])[:3000])
    print("re-run ./check C04 to re-execute (cases are regenerated from Align.tla)")
    return 0

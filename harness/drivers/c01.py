"""C01 APE values equal the definition, pose by pose.  Generator/M spec/metrics/Metrics.tla (families ape1, apeN),
P = MetricsProps!APEVerdict via Trace_Metrics."""
import random

import core
import geom
import metricsexec
from drivers import metrics_common as mc


def run(rep, tier, seed):
    rng = random.Random(seed)
    cases = mc.gen(rep, ["MC_metrics_ape1.cfg" if tier == "quick" else "MC_metrics_ape1_thorough.cfg", "MC_metrics_apeN.cfg"])
    cases = [c for c in cases if c["ref"] and c["est"]]
    # longer random sequences (code -> spec only)
    for k in range(200 if tier == "quick" else 3000):
        n = rng.randint(2, 30)
        mk = lambda: [{"r": rng.randint(1, 24), "p": [rng.randint(-9, 9) for _ in range(3)]} for _ in range(n)]  # noqa: E731
        ref = mk()
        est = [dict(p) for p in ref] if rng.random() < 0.2 else mk()
        if rng.random() < 0.1:
            est = est[:-1]
        cases.append({"fam": "ape", "rel": rng.choice(["full", "trans", "rotpart", "rad", "deg", "pdist"]), "ref": ref, "est": est})
    if tier == "thorough":          # long sequences (the statement quantifies over lengths up to 10^4)
        for n, rel in ((2000, "full"), (5000, "trans"), (10000, "deg")):
            ref = [{"r": rng.randint(1, 24), "p": [rng.randint(-9, 9) for _ in range(3)]} for _ in range(n)]
            est = [{"r": rng.randint(1, 24), "p": [rng.randint(-9, 9) for _ in range(3)]} for _ in range(n)]
            cases.append({"fam": "ape", "rel": rel, "ref": ref, "est": est})
    # relative rotations within 1e-12 of 0 and of pi, and on the whole degree grid (code -> spec)
    from drivers import c09
    aa = []
    angles = [{"k": "tiny", "n": h} for h in (1, 3, 1024)] + [{"k": "nearpi", "n": h} for h in (1, 3, 1024)] + \
             [{"k": "deg", "n": d} for d in (0, 1, 45, 90, 135, 179, 180)]
    for k in range(60 if tier == "quick" else 600):
        m = rng.randint(1, 6)
        aa.append({"fam": "apeaa", "rel": rng.choice(["rad", "deg"]), "rots": [rng.randint(1, 24) for _ in range(m)],
                   "axes": [rng.randint(1, 3) for _ in range(m)], "signs": [rng.choice([1, -1]) for _ in range(m)],
                   "angs": [c09.norm_ang(rng.choice(angles)) for _ in range(m)]})
    import evo.core.metrics  # noqa: F401
    aobs = core.pmap(metricsexec.exec_ape_axisangle, [(n, c, seed) for n, c in enumerate(aa)], chunksize=50)
    obs = core.pmap(metricsexec.exec_ape, [(n, c, seed) for n, c in enumerate(cases)], chunksize=200)
    cases, obs = cases + aa, obs + aobs
    for c, o in zip(cases, obs):
        if o["out"] == "ok":
            rep.nontriv(c)

    def probes(traces):
        ok = lambda t: t["c"]["fam"] == "ape" and t["o"]["out"] == "ok" and len(t["o"]["err"]) >= 1  # noqa: E731
        def bump(p):
            p["o"]["err"][0] += 1
        def drop(p):
            p["o"]["err"] = p["o"]["err"][:-1]
        return mc.probe(traces, ok, bump, "value") + mc.probe(traces, ok, drop, "len")
    mc.judge(rep, cases, obs, probes, lambda c: {"rel": c["rel"], "fam": c["fam"], "n_ref": len(c.get("ref", c.get("angs"))), "n_est": len(c.get("est", c.get("angs")))}, seed)
    from drivers import c15
    c15.run_metric_pipeline(rep, tier, seed, "ape")
    rep.rule = ("[file pipeline of evo_ape: TLC enumerates downsample x reference crop x time offset x alignment mode x n_to_align x projection "
                "x relation x format over a 5-pose reference and a denser 9-pose estimate, expected stored values computed in TLA+ by "
                "PipelineProps] " +"TLC enumerates single pose pairs (reference rotations x all 24 estimate rotations x translation differences on the "
                "Pythagorean lattice x 6 pose relations) and short sequences incl. unequal lengths, checks the corollaries (zero iff equal, "
                "invariance under a common rigid motion, symmetry) on the model; + seeded random sequences up to 30 poses; each executed by "
                "metrics.APE (both storage modes, 3 units) and judged by MetricsProps!APEVerdict; non-trivial = distinct accepted-length cases")
    rep.assumptions = ["poses on O24 x Z^3 (relative angles 0, 90, 120, 180 degrees exactly); lengths compared through their squares",
                       "the evo_ape CLI part of the statement is covered by the pipeline check of C15 only as far as stated there"]


def selftest(rep):
    return True


def replay(rep, path):
    import json
    d = json.load(open(path))["detail"]
    o = metricsexec.exec_ape((d["n"], d["case"], d["seed"]))
    print("observed:", o)
    rej = core.validate("metrics", "Trace_Metrics", [{"id": "replay", "c": d["case"], "o": o, "_single": True}], workers=2)
    if rej:
        print("VIOLATION property=C01 replay=%s clause=%s" % (path, rej[0][1]))
        return 1
    print("replay accepted by P")
    return 0

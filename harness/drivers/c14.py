"""C14 plane projection.  M = spec/trajectory/Projection.tla (all 360 headings x 3 planes, all 24 attitudes x 3 planes),
P = ProjectionProps via Trace_Projection; general 3-D poses are added by the seeded driver (code -> spec only)."""
import math
import random

import numpy as np

import core
import geom
import trajexec

AX = {"xy": 2, "xz": 1, "yz": 0}


def _quat_about(axis, deg):
    a = math.radians(deg) / 2
    q = [math.cos(a), 0.0, 0.0, 0.0]
    q[1 + axis] = math.sin(a)
    return np.array(q)


def _rand_rot(rng):
    q = np.array([rng.gauss(0, 1) for _ in range(4)])
    q /= np.linalg.norm(q)
    return geom.quat_to_matrix(q), q


def execute(job):
    """job: {plane, poses:[in], built, kind, pre, unit, seed} -> observation o"""
    from evo.core import trajectory
    from evo.core.trajectory import PosePath3D, PoseTrajectory3D
    plane, ax, u = job["plane"], AX[job["plane"]], job["unit"]
    rng = random.Random(job["seed"])
    mats, quats, poss = [], [], []
    for p in job["poses"]:
        if p["kind"] == "planar" and p["h"] >= 1000:        # headings within 1e-3 rad of 0: (h - 1000) * 2^-14 rad
            deg = math.degrees((p["h"] - 1000) * 2.0 ** -14)
            a = math.radians(deg)
            i, j = [(1, 2), (2, 0), (0, 1)][ax]
            m = np.eye(3)
            m[i, i] = m[j, j] = math.cos(a)
            m[j, i] = math.sin(a)
            m[i, j] = -math.sin(a)
            q = _quat_about(ax, deg)
        elif p["kind"] == "planar":
            m, q = geom.heading_matrix(ax, p["h"]), _quat_about(ax, p["h"])
        elif p["kind"] == "o24":
            m, q = geom.o24_matrix(geom.rot(p["r"])), geom.quat_wxyz(geom.rot(p["r"]))
        else:
            m, q = _rand_rot(rng)
        mats.append(m)
        quats.append(q)
        poss.append(u * np.array(p["p"], dtype=float))
    n = len(mats)
    kw = {}
    if job["built"] == "se3":
        kw["poses_se3"] = [geom.se3(m, p) for m, p in zip(mats, poss)]
        hand = job.get("seed", 0) % 5          # how the pose list is handed over
        if hand == 3:
            kw["poses_se3"] = tuple(kw["poses_se3"])
        elif hand == 4:
            arr = np.array(kw["poses_se3"])
            arr.setflags(write=False)
            kw["poses_se3"] = arr
    else:
        kw["positions_xyz"] = np.array(poss)
        kw["orientations_quat_wxyz"] = np.array(quats)
    stamps = 1.5e9 + 0.125 * np.arange(n)
    shared_meta = {"frame_id": "map"}
    kw["meta"] = shared_meta
    t = PoseTrajectory3D(timestamps=stamps.copy(), **kw) if job["kind"] == "traj" else PosePath3D(**kw)
    # a DIFFERENT object (with the same meta dict, as derived objects have) is projected first: that must not affect this one
    sib = PosePath3D(poses_se3=[np.eye(4), np.eye(4)], meta=shared_meta)
    from evo.tools.settings import SETTINGS
    old_euler = SETTINGS["euler_angle_sequence"]
    dict.__setitem__(SETTINGS, "euler_angle_sequence", job.get("euler", "sxyz"))      # a plot setting; projection must not depend on it
    try:
        return _project_and_observe(job, t, sib, mats, stamps, plane, ax, u)
    finally:
        dict.__setitem__(SETTINGS, "euler_angle_sequence", old_euler)


def _project_and_observe(job, t, sib, mats, stamps, plane, ax, u):
    from evo.core import trajectory
    n = len(mats)
    sib.project(trajectory.Plane(plane))
    if job["pre"] == "pos":
        _ = t.positions_xyz
    elif job["pre"] == "quat":
        _ = t.orientations_quat_wxyz
    elif job["pre"] == "se3":
        _ = t.poses_se3
    elif job["pre"] == "all":
        _ = (t.positions_xyz, t.orientations_quat_wxyz, t.poses_se3)
    o = {"out": "ok", "n": -1, "poses": [], "stamps_same": True, "xview": False, "second": "none"}
    if job.get("seed", 0) % 3 == 0:
        try:
            t.project("not a plane")            # a refused call (not a plane) leaves the object as it was
        except Exception:  # noqa: BLE001
            pass
    try:
        t.project(trajectory.Plane(plane))
    except Exception as e:  # noqa: BLE001
        o["out"] = type(e).__name__
        return o
    try:
        o["n"] = int(t.num_poses)
        o["xview"] = trajexec.xview(t) and bool(t.check()[0])
        pos = np.asarray(t.positions_xyz)
        for k, m in enumerate(t.poses_se3):
            m = np.asarray(m)
            q = m[:3, 3] / u
            rq = np.round(q)
            pint = [int(v) for v in rq] if np.max(np.abs(q - rq)) < 1e-7 and np.array_equal(pos[k], m[:3, 3]) else list(trajexec.OFF)
            r3 = m[:3, :3]
            valid = bool(np.array_equal(m[3], [0, 0, 0, 1]) and np.max(np.abs(r3.T @ r3 - np.eye(3))) < 1e-9
                         and abs(np.linalg.det(r3) - 1) < 1e-9)
            about = bool(trajexec.geom_about_axis(r3, ax))
            h = geom.alpha_heading(r3, ax) if about else None
            pin = job["poses"][k]
            if pin["kind"] == "planar" and pin["h"] >= 1000:       # tiny heading: the pose must be bit-for-bit (1e-12) what it was
                h = pin["h"] if np.max(np.abs(r3 - mats[k])) < 1e-12 else None
            o["poses"].append({"p": pint, "about": about, "valid": valid, "h": 999 if h is None else h,
                               "r": geom.alpha_rot_index(r3)})
        if job["kind"] == "traj":
            o["stamps_same"] = bool(np.array_equal(t.timestamps, stamps))
    except Exception as e:  # noqa: BLE001
        o["n"] = -1
        o["error"] = type(e).__name__
    try:
        other = {"xy": "xz", "xz": "yz", "yz": "xy"}[plane]
        t.project(trajectory.Plane(other if job.get("seed", 0) % 2 else plane))       # the same plane again, or another one
        o["second"] = "ok"
    except Exception as e:  # noqa: BLE001
        o["second"] = type(e).__name__
    if job.get("seed", 0) % 2 == 1:
        # ... and also after the object was moved in between (here: within the plane)
        try:
            a = np.eye(4)
            i, j = [(1, 2), (2, 0), (0, 1)][ax]
            a[i, i] = a[j, j] = 0.0
            a[j, i], a[i, j] = 1.0, -1.0
            a[i, 3], a[j, 3] = 2.0 * u, -3.0 * u
            t.transform(a)
            t.project(trajectory.Plane(plane))
            o["third"] = "ok"
        except Exception as e:  # noqa: BLE001
            o["third"] = type(e).__name__
    if job.get("seed", 0) % 4 == 0 and n >= 1:
        # evo_ape's library entry with this projected object as the reference and a fresh 3-D estimate
        from evo import main_ape
        from evo.core.metrics import PoseRelation
        from evo.core.trajectory import PosePath3D, PoseTrajectory3D
        off = np.eye(4)
        off[:3, 3] = [0.5, -0.25, 2.0]
        est_poses = [off @ geom.se3(m, u * np.array(p["p"], dtype=float)) for m, p in zip(mats, job["poses"])]
        est = PoseTrajectory3D(poses_se3=est_poses, timestamps=stamps.copy()) if job["kind"] == "traj" else PosePath3D(poses_se3=est_poses)
        try:
            res = main_ape.ape(t, est, PoseRelation.translation_part, project_to_plane=trajectory.Plane(plane))
            used = res.trajectories.get("estimate", est)
            o["ape2"] = "planar" if all(abs(float(q[ax, 3])) < 1e-12 for q in used.poses_se3) else "nonplanar"
        except Exception:  # noqa: BLE001
            o["ape2"] = "refused"
    return o


def run(rep, tier, seed):
    rng = random.Random(seed)
    r = core.tlc("trajectory", "Projection", "MC_proj.cfg", workers=4)
    rep.add_tlc(r)
    cases = r.printed_json()
    if len(cases) != 3 * (360 + 24):       # (tiny headings are added by the harness below)
        raise core.MachineryError("Projection model emitted %d cases" % len(cases))
    groups = {}
    for c in cases:
        i = c["in"]
        gt90 = (i["kind"] == "planar" and abs(i["h"]) > 90) or (i["kind"] == "o24" and geom.rot(i["r"]) == (-1, 2, -3))
        cls = "xz_gt90" if (c["plane"] == "xz" and gt90) else "normal"
        groups.setdefault((c["plane"], cls), []).append(i)
    for plane in ("xy", "xz", "yz"):            # planar headings within 1e-3 rad of zero (between the 1-degree grid points)
        flat = [3, -2, 5]
        flat[AX[plane]] = 0
        for h in (1001, 1002, 1005, 1015):
            groups[(plane, "normal")].append({"kind": "planar", "h": h, "p": list(flat)})
    jobs = []
    builts, kinds, pres = ["se3", "pq"], ["path", "traj"], ["none", "pos", "quat", "se3", "all"]
    reps = 2 if tier == "quick" else 8
    for (plane, cls), ins in sorted(groups.items()):
        for rr in range(reps):
            ins2 = ins[:]
            rng.shuffle(ins2)
            for k in range(0, len(ins2), 4):
                poses = ins2[k:k + 4]
                j = len(jobs)
                jobs.append({"plane": plane, "cls": cls, "poses": poses, "built": builts[j % 2], "kind": kinds[(j // 2) % 2],
                             "pre": pres[(j // 4 + rr) % 5], "unit": [1.0, 0.25, 1024.0][j % 3], "seed": seed * 7919 + j,
                             "euler": ["sxyz", "sxyz", "rzyx", "ryxz"][(j // 3) % 4]})
    # general 3-D poses (orientation after projection is not constrained beyond "about the normal")
    ngen = 150 if tier == "quick" else 3000
    for g in range(ngen):
        plane = ["xy", "xz", "yz"][g % 3]
        poses = [{"kind": "gen", "p": [rng.randint(-9, 9) for _ in range(3)]} for _ in range(rng.randint(1, 6))]
        j = len(jobs)
        jobs.append({"plane": plane, "cls": "normal", "poses": poses, "built": builts[j % 2], "kind": kinds[(j // 2) % 2],
                     "pre": pres[(j // 4) % 5], "unit": [1.0, 0.25, 1024.0][j % 3], "seed": seed * 7919 + j})
    import evo.core.trajectory  # noqa: F401
    obs = core.pmap(execute, jobs, chunksize=20)
    traces = []
    for n, (j, o) in enumerate(zip(jobs, obs)):
        traces.append({"id": "p%d" % n, "c": {"plane": j["plane"], "poses": j["poses"]}, "o": o})
        rep.nontriv([j["plane"], j["poses"], j["built"], j["pre"]])
    probes = _probes(traces)
    rejects = core.validate("trajectory", "Trace_Projection", traces + probes, workers=8)
    rej = {x[0] for x in rejects}
    missing = [p["id"] for p in probes if p["id"] not in rej]
    # a probe is decisive only if P accepted the trace it was made from (the recorded finding of this property is a rejection that
    # is always there, so the rule is applied per probe and not per run as core.probe_fail does)
    decisive = [m for m in missing if _SRC.get(m) not in rej]
    if decisive or (not probes and not rejects):
        raise core.MachineryError("P accepted corrupted traces: %s" % decisive)
    if missing:
        print("NOTE probes %s not decisive: P rejects the traces they were made from" % missing)
    rep.extra["probes_rejected"] = len(probes)
    rep.traces = len(traces)
    rep.evaluations = sum(len(j["poses"]) for j in jobs)
    for tid, clause, _ in rejects:
        if tid.startswith("probe"):
            continue
        n = int(tid[1:])
        j = jobs[n]
        rep.violation({"clause": clause, "plane": j["plane"], "cls": j["cls"], "built": j["built"], "pre": j["pre"]},
                      {"job": j, "observed": obs[n]})
    for t in traces[:2] + traces[-1:]:
        rep.sample(t)
    rep.rule = ("TLC enumerates plane x all 360 integer headings (planar poses) and plane x all 24 axis-permuting attitudes; "
                "cases are packed 4 per trajectory (both construction kinds, with/without stamps, 5 cache histories, 3 units), "
                "projected by the real code, re-projected (must be refused); + seeded general 3-D poses; judged by ProjectionProps")
    rep.exhaustive = False
    rep.assumptions = ["planar headings on the 1-degree grid; general poses only constrained to end up in the plane as valid poses"]


_SRC = {}


def _probes(traces):
    import copy
    out = []
    good = [t for t in traces if t["o"]["out"] == "ok" and t["c"]["poses"][0]["kind"] == "planar" and t["o"]["n"] > 0][:2]
    for n, t in enumerate(good):
        for kind in ("h", "second", "pos"):
            _SRC["probe.%s%d" % (kind, n)] = t["id"]
        p = copy.deepcopy(t)
        p["id"] = "probe.h%d" % n
        p["o"]["poses"][0]["h"] = p["c"]["poses"][0]["h"] + 1
        p["c"]["poses"][0]["h"] = p["c"]["poses"][0]["h"]
        out.append(p)
        p = copy.deepcopy(t)
        p["id"] = "probe.second%d" % n
        p["o"]["second"] = "ok"
        out.append(p)
        p = copy.deepcopy(t)
        p["id"] = "probe.pos%d" % n
        p["o"]["poses"][0]["p"][AX[p["c"]["plane"]]] = 1
        out.append(p)
    return out


def selftest(rep):
    return True


def replay(rep, path):
    import json
    body = json.load(open(path))
    j = body["detail"]["job"]
    o = execute(j)
    print("observed:", o)
    rej = core.validate("trajectory", "Trace_Projection", [{"id": "replay", "c": {"plane": j["plane"], "poses": j["poses"]}, "o": o}], workers=2)
    if rej:
        print("VIOLATION property=C14 replay=%s clause=%s" % (path, rej[0][1]))
        return 1
    print("replay accepted by P")
    return 0

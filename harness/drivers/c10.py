"""C10 RPE pair selection.  M = spec/pairs/Pairs.tla (the three selectors as loops + dispatcher), P = PairsProps via Trace_Pairs."""
import contextlib
import copy
import io
import math
import random

import numpy as np

import core
import geom


FINE = 2.0 ** -10       # radians per heading unit of the densely sampled family (a few milliradians per frame)


def poses_of(c, u):
    xs = np.concatenate(([0.0], np.cumsum(np.array(c["steps"], dtype=float)))) * u
    if c.get("fine"):
        out = []
        for x, h in zip(xs, c["heads"]):
            a = h * FINE
            m = np.array([[math.cos(a), -math.sin(a), 0.0], [math.sin(a), math.cos(a), 0.0], [0.0, 0.0, 1.0]])
            out.append(geom.se3(m, [x, 0.0, 0.0]))
        return out
    return [geom.se3(geom.heading_matrix(2, h % 360), [x, 0.0, 0.0]) for x, h in zip(xs, c["heads"])]


def execute(job):
    from evo.core import filters, metrics
    n, c, q, seed = job
    u = [1.0, 0.25, 1024.0][(n + seed) % 3]
    poses = poses_of(c, u)
    if (n // 3) % 3 == 1:
        poses = np.array(poses)                 # handed over as one (N, 4, 4) array
    elif (n // 3) % 3 == 2:
        poses = tuple(poses)
    unit = {"frames": metrics.Unit.frames, "meters": metrics.Unit.meters, "degrees": metrics.Unit.degrees,
            "radians": metrics.Unit.radians}[q["unit"]]
    delta = {"frames": q["d"], "meters": q["d"] * u, "degrees": float(q["d"]), "radians": math.radians(q["d"])}[q["unit"]]
    if c.get("fine") and q["unit"] in ("degrees", "radians"):
        delta = math.degrees(q["d"] * FINE) if q["unit"] == "degrees" else q["d"] * FINE
    try:
        with contextlib.redirect_stdout(io.StringIO()):
            prs = metrics.id_pairs_from_delta(poses, delta, unit, q["tn"] / q["td"], q["all"])
        return {"out": "ok", "pairs": [[int(i), int(j)] for i, j in prs]}
    except filters.FilterException:
        return {"out": "FilterException", "pairs": []}
    except Exception as e:  # noqa: BLE001
        return {"out": type(e).__name__, "pairs": []}


def tie(c, q):
    """an angle threshold / band edge is hit exactly somewhere: the model's exact answer is one of several allowed"""
    if q["unit"] not in ("degrees", "radians"):
        return False
    hs = c["heads"]
    n = len(hs)
    rel = lambda a, b: min(abs(a - b) % 360, 360 - abs(a - b) % 360)  # noqa: E731
    if q["all"]:
        lo, hi = q["d"] * (q["td"] - q["tn"]), q["d"] * (q["td"] + q["tn"])
        return any(rel(hs[i], hs[j]) * q["td"] in (lo, hi) for i in range(n) for j in range(i + 1, n))
    for i in range(n):
        acc = 0
        for j in range(i + 1, n):
            acc += rel(hs[j - 1], hs[j])
            if acc == q["d"]:
                return True
    return False


def run(rep, tier, seed):
    rng = random.Random(seed)
    cfgs = ["MC_pairs_frames.cfg"] + (["MC_pairs_meters.cfg", "MC_pairs_angle.cfg"] if tier == "quick"
                                       else ["MC_pairs_meters_thorough.cfg", "MC_pairs_angle_thorough.cfg"])
    cases = []
    for cfg in cfgs:
        r = core.tlc("pairs", "Pairs", cfg, workers=8)
        rep.add_tlc(r)
        cases += r.printed_json()
    for b in ("path_gt", "tol_ignored"):
        rb = core.tlc("pairs", "Pairs", "MC_pairs_bug_%s.cfg" % b, workers=8, expect_ok=False)
        if rb.rc != 12:
            raise core.MachineryError("seeded model bug %s not refuted" % b)
    rep.extra["m_cases"] = len(cases)
    for k in range(200 if tier == "quick" else 3000):       # larger random sequences, code -> spec only
        n = rng.randint(5, 40 if tier == "quick" else 150)
        c = {"steps": [rng.choice([0, 1, 1, 2, 3, 5]) for _ in range(n - 1)], "heads": [0]}
        for _ in range(n - 1):
            c["heads"].append((c["heads"][-1] + rng.choice([0, 0, 10, 30, 45, 90, 180, 350])) % 360)
        unit = rng.choice(["frames", "meters", "degrees", "radians"])
        allp = rng.random() < 0.5
        tol = rng.choice([[0, 1], [1, 4], [1, 2], [1, 1]]) if allp else [0, 1]
        d = rng.randint(1, 8) if unit in ("frames", "meters") else rng.choice([10, 30, 45, 75, 90, 135, 180])
        cases.append({"c": c, "q": {"unit": unit, "d": d, "all": allp, "tn": tol[0], "td": tol[1]}})
    # densely sampled rotation: a few milliradians per frame (heading unit 2^-10 rad, even headings, odd deltas: no threshold is hit exactly)
    for k in range(60 if tier == "quick" else 600):
        n = rng.randint(8, 40)
        heads = [0]
        for _ in range(n - 1):
            heads.append(min(178, heads[-1] + rng.choice([0, 2, 2, 4, 4, 6])))
        c = {"steps": [1] * (n - 1), "heads": heads, "fine": True}
        allp = rng.random() < 0.4
        tol = rng.choice([[0, 1], [1, 4], [1, 2]]) if allp else [0, 1]
        cases.append({"c": c, "q": {"unit": rng.choice(["degrees", "radians"]), "d": rng.choice([3, 5, 9, 15, 31]), "all": allp, "tn": tol[0], "td": tol[1]}})
    import evo.core.metrics  # noqa: F401
    obs = core.pmap(execute, [(n, x["c"], x["q"], seed) for n, x in enumerate(cases)], chunksize=200)
    traces = []
    for n, (x, o) in enumerate(zip(cases, obs)):
        traces.append({"id": "p%d" % n, "c": x["c"], "q": x["q"], "o": o, "_single": True})
        if "m" in x and not tie(x["c"], x["q"]) and (x["m"]["out"] != o["out"] or x["m"]["pairs"] != o["pairs"]):
            if x["q"]["unit"] in ("degrees", "radians") and x["q"]["all"] and sorted(map(tuple, x["m"]["pairs"])) == sorted(map(tuple, o["pairs"])):
                pass
            else:
                rep.drifted("%s %s: model %s, code %s" % (x["c"], x["q"], x["m"], o))
        if o["out"] == "ok":
            rep.nontriv([x["c"], x["q"]])
    probes = []
    for unit in ("frames", "meters", "degrees"):
        t = next(t for t in traces if t["q"]["unit"] == unit and t["o"]["out"] == "ok" and len(t["o"]["pairs"]) >= 2)
        p = copy.deepcopy(t)
        p["id"] = "probe." + unit
        p["o"]["pairs"] = p["o"]["pairs"][:-1] if unit != "frames" or True else p["o"]["pairs"]
        if unit == "degrees" and not t["q"]["all"]:
            p["o"]["pairs"][0] = [p["o"]["pairs"][0][0], p["o"]["pairs"][0][1] + 1]
        probes.append(p)
    rejects = core.validate("pairs", "Trace_Pairs", traces + probes, workers=8)
    rej = {x[0] for x in rejects}
    acc = [p["id"] for p in probes if p["id"] not in rej]
    if len(acc) > 1:        # dropping the last pair of a chain can still be a valid chain only in rare cases
        core.probe_fail(rejects, "P accepted corrupted traces: %s" % acc)
    rep.extra["probes_rejected"] = len(probes) - len(acc)
    rep.traces = len(traces)
    for tid, clause, _ in rejects:
        if tid.startswith("probe"):
            continue
        n = int(tid[1:])
        x = cases[n]
        rep.violation({"clause": clause, "unit": x["q"]["unit"], "all": x["q"]["all"]},
                      {"case": {"c": x["c"], "q": x["q"]}, "observed": obs[n], "n": n, "seed": seed})
    for t in traces[:1] + traces[len(traces) // 2:len(traces) // 2 + 1] + traces[-1:]:
        rep.sample({"c": t["c"], "q": t["q"], "o": t["o"]})
    rep.rule = ("TLC enumerates pose sequences (frames: 2..8 poses; metres: <=5(6) poses x integer steps 0..3; angles: <=4(5) poses x heading "
                "steps {0,30,45,90,180}) x delta x consecutive/all_pairs x tolerance {0,1/4,1/2,1} x degrees/radians, incl. deltas hit exactly "
                "and deltas no pair satisfies; + seeded random sequences up to 150 poses; executed by metrics.id_pairs_from_delta "
                "(3 lattice units) and judged by PairsProps")
    rep.assumptions = ["steps along one axis with integer lengths, headings about z on the degree grid",
                       "accumulated or relative angles hitting the threshold / band edge exactly: either answer accepted"]


def selftest(rep):
    ok = True
    for b in ("path_gt", "tol_ignored"):
        rb = core.tlc("pairs", "Pairs", "MC_pairs_bug_%s.cfg" % b, workers=8, expect_ok=False)
        ok &= rb.rc == 12
    return ok


def replay(rep, path):
    import json
    body = json.load(open(path))
    d = body["detail"]
    o = execute((d["n"], d["case"]["c"], d["case"]["q"], d["seed"]))
    print("observed:", o)
    rej = core.validate("pairs", "Trace_Pairs", [{"id": "replay", "c": d["case"]["c"], "q": d["case"]["q"], "o": o, "_single": True}], workers=2)
    if rej:
        print("VIOLATION property=C10 replay=%s clause=%s" % (path, rej[0][1]))
        return 1
    print("replay accepted by P")
    return 0

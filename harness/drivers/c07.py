"""C07 file conventions and malformed files.  M = spec/fileio/FileIO.tla (line machine; all files of <= 3 abstract lines with the
defect in every position), P = FileIOProps via Trace_FileIO; independent serializer/parser in harness/fileexec.py."""
import copy

import core
import fileexec


def families(rep, tier, names):
    cases = []
    for w in names:
        r = core.tlc("fileio", "FileIO", "MC_fileio_%s.cfg" % (w + ("_thorough" if tier == "thorough" and w == "read" else "")), workers=8)
        rep.add_tlc(r)
        cases += r.printed_json()
    return cases


def judge(rep, pid, cases, obs, probes):
    traces = [{"id": "f%d" % n, "c": c, "o": o, "_single": True} for n, (c, o) in enumerate(zip(cases, obs))]
    pr = probes(traces)
    rejects = core.validate("fileio", "Trace_FileIO", traces + pr, workers=8)
    rej = {x[0] for x in rejects}
    if not pr or any(p["id"] not in rej for p in pr):
        core.probe_fail(rejects, "P accepted corrupted traces")
    rep.extra["probes_rejected"] = len(pr)
    rep.traces = len(traces)
    for tid, clause, _ in rejects:
        if tid.startswith("probe"):
            continue
        n = int(tid[1:])
        c = cases[n]
        rep.violation({"clause": clause, "fam": c["fam"], "fmt": c.get("fmt", c.get("enc", "-")), "src": c.get("src", c.get("f", {}).get("src", "-")) if isinstance(c.get("f", {}), dict) else "-"},
                      {"case": c, "observed": obs[n], "n": n})
    for t in traces[:1] + traces[len(traces) // 2:len(traces) // 2 + 1] + traces[-1:]:
        rep.sample({"c": t["c"], "o": t["o"]})


def run(rep, tier, seed):
    cases = families(rep, tier, ["read", "transform", "write"])
    import evo.tools.file_interface  # noqa: F401
    fn = {"read": fileexec.exec_read, "transform": fileexec.exec_transform, "write": fileexec.exec_write}
    reads = [(n, c, seed) for n, c in enumerate(cases) if c["fam"] == "read"]
    robs = dict(zip([j[0] for j in reads], core.pmap(fileexec.exec_read, reads, chunksize=200)))
    obs = [robs[n] if c["fam"] == "read" else fn[c["fam"]]((n, c, seed)) for n, c in enumerate(cases)]
    for c, o in zip(cases, obs):
        rep.nontriv(c)

    def probes(traces):
        out = []
        g = next(t for t in traces if t["c"]["fam"] == "read" and t["o"]["out"] == "ok" and t["c"]["fmt"] == "tum" and len(t["o"]["rows"]) >= 1)
        p = copy.deepcopy(g)
        p["id"] = "probe.slot"
        p["o"]["rows"][0][4], p["o"]["rows"][0][7] = p["o"]["rows"][0][7], p["o"]["rows"][0][4]
        out.append(p)
        g = next(t for t in traces if t["c"]["fam"] == "read" and t["o"]["out"] == "FileInterfaceException")
        p = copy.deepcopy(g)
        p["id"] = "probe.accept"
        p["o"] = {"out": "ok", "rows": [], "ns_to_s": True}
        out.append(p)
        g = next(t for t in traces if t["c"]["fam"] == "transform" and t["c"]["cls"] == "reflection")
        p = copy.deepcopy(g)
        p["id"] = "probe.refl"
        p["o"] = {"out": "ok", "same": True}
        out.append(p)
        return out
    judge(rep, "C07", cases, obs, probes)
    rep.rule = ("TLC enumerates every TUM / KITTI / EuRoC file of up to 3 abstract lines (good rows, comments anywhere, blank rows, trailing "
                "delimiters, too few / too many columns, a non-numeric field in the first, a middle or the last column; at most one "
                "non-width defect) x BOM x CRLF x path/handle, transformation files (npy/txt/json x SE(3), Sim(3), reflection, shear, "
                "anisotropic, bad bottom row, zero, 3x3, negative/zero scale) and writer shapes; files are produced by an independent serializer "
                "(4 float spellings) and evo's output is parsed by an independent parser; judged by FileIOProps")
    rep.assumptions = ["a BOM is only promised for files given by path; float literal spellings limited to 4 styles",
                       "EuRoC rows must have equal width >= 8"]


def selftest(rep):
    return True


def replay(rep, path):
    import json
    d = json.load(open(path))["detail"]
    c = d["case"]
    fn = {"read": fileexec.exec_read, "transform": fileexec.exec_transform, "write": fileexec.exec_write, "roundtrip": fileexec.exec_roundtrip}[c["fam"]]
    if c.get("src") == "cli":
        fn = fileexec.exec_cli_bag
    for seed in range(4):
        o = fn((d["n"], c, seed))
        print("observed (seed %d):" % seed, o)
    return 0

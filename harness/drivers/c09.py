"""C09 Lie-group helpers.  Generator spec/lie/Lie.tla (calls over O24 / axis angles incl. angles within 1e-12 of 0 and pi),
group laws as TLC-checked theorems of LieProps; every call replayed on evo.core.lie_algebra and judged by LieProps."""
import copy
import math

import numpy as np

import core
import geom

EPS = 2.0 ** -40
UNITS = [2.0 ** -20, 1.0, 2.0 ** 30]


def ang_value(a):
    if a["k"] == "deg":
        return math.radians(a["n"])
    if a["k"] == "tiny":
        return a["n"] * EPS
    return math.pi - a["n"] * EPS


def axis_rot(ax, ang):
    """independent construction of the rotation about coordinate axis ax (1..3) by ang"""
    c, s = math.cos(ang), math.sin(ang)
    i, j = [(1, 2), (2, 0), (0, 1)][ax - 1]
    m = np.eye(3)
    m[i, i] = c
    m[j, j] = c
    m[j, i] = s
    m[i, j] = -s
    return m


CANDS = ([{"k": "deg", "n": d} for d in range(0, 181)] + [{"k": "tiny", "n": h} for h in (1, 3, 1024)]
         + [{"k": "nearpi", "n": h} for h in (0, 1, 3, 1024)])


def alpha_angle(m):
    best = None
    for c in CANDS:
        v = ang_value(c)
        if abs(m - v) <= 1e-12 + 1e-9 * v and (c["k"] != "tiny" or abs(m - v) <= 1e-9 * v):
            if best is None or abs(m - v) < abs(m - ang_value(best)):
                best = c
    if best and best["k"] == "nearpi" and best["n"] == 0:
        best = {"k": "deg", "n": 180}
    return best or {"k": "off", "n": -1}


def alpha_rotvec(v):
    v = np.asarray(v, dtype=float)
    m = float(np.linalg.norm(v))
    if m == 0:
        return {"ax": 0, "sg": 0, "ang": {"k": "deg", "n": 0}}, True
    k = int(np.argmax(np.abs(v)))
    rest = np.delete(v, k)
    if np.max(np.abs(rest)) > 1e-12 * max(1.0, m):
        return {"ax": -1, "sg": 0, "ang": {"k": "off", "n": -1}}, False
    return {"ax": k + 1, "sg": 1 if v[k] > 0 else -1, "ang": alpha_angle(m)}, False


def norm_ang(a):
    if a["k"] == "nearpi" and a["n"] == 0:
        return {"k": "deg", "n": 180}
    return a


def pose_mat(P, u):
    return geom.se3(geom.o24_matrix(geom.rot(P["r"])), u * np.array(P["p"], dtype=float))


def alpha_pose(m, u):
    m = np.asarray(m, dtype=float)
    if m.shape != (4, 4) or not np.array_equal(m[3], [0, 0, 0, 1]):
        return {"r": -1, "p": [0, 0, 0]}
    q = m[:3, 3] / u
    r = np.round(q)
    p = [int(x) for x in r] if np.max(np.abs(q - r)) < 1e-6 else [99999] * 3
    return {"r": geom.alpha_rot_index(m[:3, :3]), "p": p}


def execute(job):
    from evo.core import lie_algebra as lie
    n, c = job
    u = UNITS[n % 3]
    fn = c["fn"]
    try:
        if fn == "exp_log":
            ang = ang_value(c["v"]["ang"])
            v = np.zeros(3)
            v[c["v"]["ax"] - 1] = c["v"]["sg"] * ang
            R = lie.so3_exp(v)
            expok = bool(np.max(np.abs(R - axis_rot(c["v"]["ax"], c["v"]["sg"] * ang))) < 1e-15 + 1e-16)
            back, zero = alpha_rotvec(lie.so3_log(R))
            return {"expok": expok, "v": back, "zero": zero, "angle": alpha_angle(lie.so3_log_angle(R))}
        if fn == "log_exp":
            R = geom.o24_matrix(geom.rot(c["r"]))
            v = lie.so3_log(R)
            sk = lie.so3_log(R, return_skew=True)
            return {"r": geom.alpha_rot_index(lie.so3_exp(v)), "deg": _deg(lie.so3_log_angle(R, degrees=True)),
                    "skewok": bool(np.array_equal(lie.vee(sk), v) and np.array_equal(sk, -sk.T))}
        if fn == "hat_vee":
            v = u * np.array(c["v"], dtype=float)
            h = lie.hat(v)
            back = lie.vee(h) / u
            return {"v": [int(x) for x in back] if np.array_equal(back, np.round(back)) else [99999] * 3,
                    "skew": bool(np.array_equal(h, -h.T) and np.array_equal(h @ np.array([1.0, 2.0, 3.0]), np.cross(v, [1.0, 2.0, 3.0])))}
        if fn == "se3_inv":
            A = pose_mat(c["A"], u)
            inv = lie.se3_inverse(A)
            return {"inv": alpha_pose(inv, u), "isid": bool(np.array_equal(A @ inv, np.eye(4)) and np.array_equal(inv @ A, np.eye(4)))}
        if fn == "rel":
            A, B = pose_mat(c["A"], u), pose_mat(c["B"], u)
            return {"rel": alpha_pose(lie.relative_se3(A, B), u),
                    "relso3": geom.alpha_rot_index(lie.relative_so3(A[:3, :3], B[:3, :3])),
                    "self": alpha_pose(lie.relative_se3(A, A), u)}
        if fn == "sim3_inv":
            s = c["s"][0] / c["s"][1]
            A = pose_mat(c["A"], u)
            S = lie.sim3(A[:3, :3], A[:3, 3], s)
            if c.get("intdtype"):
                S = np.array(np.round(S), dtype=int) if u == 1.0 else S
            inv = lie.sim3_inverse(S)
            tol = 1e-12 * max(1.0, float(np.max(np.abs(S))))
            return {"isid": bool(np.max(np.abs(S @ inv - np.eye(4))) < tol and np.max(np.abs(inv @ S - np.eye(4))) < tol),
                    "scale": geom.frac(float(lie.sim3_scale(S)), 1 << 11, 1e-12) or [-1, 1],
                    "invscale": geom.frac(float(lie.sim3_scale(inv)), 1 << 11, 1e-12) or [-1, 1]}
        if fn == "angle":
            a, b = geom.o24_matrix(geom.rot(c["a"])), geom.o24_matrix(geom.rot(c["b"]))
            return {"deg": _deg(lie.so3_log_angle(lie.relative_so3(a, b), True)),
                    "rad": _deg(math.degrees(lie.so3_log_angle(lie.relative_so3(a, b)))),
                    "degba": _deg(lie.so3_log_angle(lie.relative_so3(b, a), True))}
        if fn == "member":
            R = geom.o24_matrix(geom.rot(c["r"]))
            P = geom.se3(R, u * np.array([1.0, -2.0, 3.0]))
            if c["what"] == "f32":
                a, b = math.radians(37.0 + n % 11), math.radians(21.0 + n % 7)
                G = np.array([[math.cos(a), -math.sin(a), 0.0], [math.sin(a), math.cos(a), 0.0], [0.0, 0.0, 1.0]]) @ \
                    np.array([[1.0, 0.0, 0.0], [0.0, math.cos(b), -math.sin(b)], [0.0, math.sin(b), math.cos(b)]])
                R = (G @ R).astype(np.float32).astype(np.float64)
                P = geom.se3(R, P[:3, 3])
            elif c["what"] == "scaled":
                R, P = 2.0 * R, geom.se3(2.0 * R, P[:3, 3])
            elif c["what"] == "shear":
                R = R.copy()
                R[0, 1] += 0.001 if R[0, 1] == 0 else -0.001
                P = geom.se3(R, P[:3, 3])
            elif c["what"] == "smallshear":       # a 10 % shear of a rotation block scaled by 2^-13: not a similarity
                R = R.copy()
                R[0, 1] += 0.1 if R[0, 1] == 0 else -0.1
                R = 2.0 ** -13 * R
                P = geom.se3(R, P[:3, 3])
            elif c["what"] in ("badrow", "tinyrow"):
                P = P.copy()
                P[3, n % 3] = 1e-3 if c["what"] == "badrow" else [1e-9, 1e-12, 3e-10][n % 3]
                so3 = False      # the 3x3 block itself is fine; only the 4x4 tests are judged for this class
                return {"so3": so3, "se3": bool(lie.is_se3(P)), "sim3": bool(lie.is_sim3(P))}
            sim3 = lie.is_sim3(P)
            return {"so3": bool(lie.is_so3(R)), "se3": bool(lie.is_se3(P)), "sim3": bool(sim3) if sim3 == sim3 else False}
    except Exception as e:  # noqa: BLE001
        return {"error": type(e).__name__}
    return {"error": "unknown"}


def _deg(x):
    r = round(x)
    return int(r) if abs(x - r) < 1e-9 else -1


DEFAULTS = {"exp_log": {"expok": False, "v": {"ax": -1, "sg": 0, "ang": {"k": "off", "n": -1}}, "zero": False, "angle": {"k": "off", "n": -1}},
            "log_exp": {"r": -1, "deg": -1, "skewok": False}, "hat_vee": {"v": [99999] * 3, "skew": False},
            "se3_inv": {"inv": {"r": -1, "p": [0, 0, 0]}, "isid": False},
            "rel": {"rel": {"r": -1, "p": [0, 0, 0]}, "relso3": -1, "self": {"r": -1, "p": [0, 0, 0]}},
            "sim3_inv": {"isid": False, "scale": [-1, 1], "invscale": [-1, 1]}, "angle": {"deg": -1, "rad": -1, "degba": -2},
            "member": {"so3": True, "se3": True, "sim3": True}}


def run(rep, tier, seed):
    r = core.tlc("lie", "Lie", "MC_lie_%s.cfg" % tier, workers=8)
    rep.add_tlc(r)
    cases = r.printed_json()
    for c in cases:
        if c["fn"] == "exp_log":
            c["v"]["ang"] = norm_ang(c["v"]["ang"])
    import evo.core.lie_algebra  # noqa: F401
    reps = 1 if tier == "quick" else 3
    jobs = [(n + k * 7, c) for k in range(reps) for n, c in enumerate(cases)]
    obs = core.pmap(execute, jobs, chunksize=100)
    traces = []
    for n, ((_, c), o) in enumerate(zip(jobs, obs)):
        if "error" in o:
            o = dict(DEFAULTS[c["fn"]], error=o["error"])
        traces.append({"id": "l%d" % n, "c": c, "o": o, "_single": True})
        rep.nontriv([c, n % 3])
    probes = []
    for fn, key, val in (("rel", "relso3", 2), ("angle", "deg", 45), ("member", "so3", None), ("se3_inv", "isid", False)):
        t = next(t for t in traces if t["c"]["fn"] == fn)
        p = copy.deepcopy(t)
        p["id"] = "probe." + fn
        p["o"][key] = (not p["o"][key]) if val is None else (val if p["o"][key] != val else val + 1)
        probes.append(p)
    rejects = core.validate("lie", "Trace_Lie", traces + probes, workers=8)
    rej = {x[0] for x in rejects}
    if any(p["id"] not in rej for p in probes):
        core.probe_fail(rejects, "P accepted corrupted traces")
    rep.extra["probes_rejected"] = len(probes)
    rep.traces = len(traces)
    for tid, clause, _ in rejects:
        if tid.startswith("probe"):
            continue
        n = int(tid[1:])
        c = jobs[n][1]
        rep.violation({"clause": clause, "fn": c["fn"]}, {"case": c, "observed": obs[n], "n": jobs[n][0]})
    for t in traces[:1] + traces[len(traces) // 2:len(traces) // 2 + 1] + traces[-1:]:
        rep.sample({"c": t["c"], "o": t["o"]})
    rep.rule = ("calls enumerated by TLC: exp/log round trips for rotation vectors about each coordinate axis (both signs) by integer degrees, "
                "by h*2^-40 rad and by pi - h*2^-40 rad; log/exp on all 24 axis-permuting rotations; hat/vee; SE(3) inverse and relative poses on "
                "O24 x Z^3 with translation units 2^-20, 1, 2^30; Sim(3) inverse and scale recovery for s in {1/4..1024}; the angle on O24 pairs; "
                "membership tests on proper/improper/scaled/sheared/bad-bottom-row matrices; metric axioms and bi-invariance are TLC-checked "
                "theorems on the model (ASSUME in LieProps); observed values judged by LieProps")
    rep.assumptions = ["rotations about coordinate axes and axis-permuting rotations only; generic axes and the 1e-6 acceptance boundary of the membership tests are not decided"]


def selftest(rep):
    return True


def replay(rep, path):
    import json
    body = json.load(open(path))
    d = body["detail"]
    o = execute((d["n"], d["case"]))
    print("observed:", o)
    if "error" in o:
        o = dict(DEFAULTS[d["case"]["fn"]], error=o["error"])
    rej = core.validate("lie", "Trace_Lie", [{"id": "replay", "c": d["case"], "o": o, "_single": True}], workers=2)
    if rej:
        print("VIOLATION property=C09 replay=%s clause=%s" % (path, rej[0][1]))
        return 1
    print("replay accepted by P")
    return 0

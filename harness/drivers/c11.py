"""C11 sub-sampling, cropping, splitting, merging.  M = spec/select/Select.tla (all small inputs per operation),
P = SelectProps via Trace_Select."""
import math
import random

import numpy as np

import core
import geom


def _traj(c, u, clock, built, tagy=0.0):
    from evo.core.trajectory import PoseTrajectory3D
    n = len(c["steps"]) + 1
    xs = np.concatenate(([0.0], np.cumsum(np.array(c["steps"], dtype=float)))) * u
    pos = np.column_stack((xs, np.full(n, tagy), np.zeros(n)))
    mats = [geom.heading_matrix(2, h % 360) for h in c["heads"]]
    ts = clock.g(c["stamps"])
    if built == "se3":
        return PoseTrajectory3D(poses_se3=[geom.se3(m, p) for m, p in zip(mats, pos)], timestamps=ts), pos, mats
    quats = []
    for h in c["heads"]:
        a = math.radians(h % 360) / 2
        quats.append([math.cos(a), 0.0, 0.0, math.sin(a)])
    return PoseTrajectory3D(positions_xyz=pos, orientations_quat_wxyz=np.array(quats), timestamps=ts), pos, mats


def _ids_intact(out, c, clock, pos, mats):
    """alpha: which input rows the output rows are (via stamps), and whether each row is intact in all views"""
    lookup = {float(x): k + 1 for k, x in enumerate(clock.g(c["stamps"]))}
    ids, intact = [], True
    opos, oq, ose3 = np.asarray(out.positions_xyz), np.asarray(out.orientations_quat_wxyz), out.poses_se3
    if not (len(opos) == len(oq) == len(ose3) == len(out.timestamps) == out.num_poses):
        return [], False
    for k in range(out.num_poses):
        i = lookup.get(float(out.timestamps[k]), 0)
        ids.append(i)
        if i == 0:
            intact = False
            continue
        if not (np.array_equal(opos[k], pos[i - 1]) and np.array_equal(np.asarray(ose3[k])[:3, 3], pos[i - 1])):
            intact = False
        if np.max(np.abs(np.asarray(ose3[k])[:3, :3] - mats[i - 1])) > 1e-12 or \
                np.max(np.abs(geom.quat_to_matrix(oq[k]) - mats[i - 1])) > 1e-12:
            intact = False
    return ids, intact


def _just_below(n, t):
    """gamma variant for time / distance splits: the threshold handed over is a millionth below th ticks / units, so a step of exactly th
    exceeds it by a relative 1e-6 (judged by P as threshold th - 1: integer steps exceed it iff they are >= th)"""
    return t.get("op") == "split" and t.get("kind") in ("time", "distance") and t.get("th", 0) >= 1 and (n // 11) % 2 == 1


def execute(job):
    from evo.core import trajectory
    n, t, seed = job
    u = [1.0, 0.25, 1024.0][(n + seed) % 3]
    clock = geom.CLOCKS[(n // 3 + seed) % len(geom.CLOCKS)]
    built = "se3" if (n // 2) % 2 else "pq"
    op = t["op"]
    o = {"out": "ok", "intact": True}
    try:
        if op == "merge":
            trajs, meta = [], []
            for i, st in enumerate(t["ins"]):
                if not st:
                    continue
                c = {"steps": [1] * (len(st) - 1), "heads": [(37 * (i + 1) + 11 * k) % 360 for k in range(len(st))], "stamps": st}
                tr, pos, mats = _traj(c, u, clock, built if i % 2 else ("pq" if built == "se3" else "se3"), tagy=float(i + 1))
                trajs.append(tr)
                meta.append((i + 1, c, pos, mats))
            out = trajectory.merge(trajs)
            rows, intact = [], True
            opos, oq = np.asarray(out.positions_xyz), np.asarray(out.orientations_quat_wxyz)
            for k in range(out.num_poses):
                found = None
                for (i, c, pos, mats) in meta:
                    for r in range(len(c["stamps"])):
                        if np.array_equal(opos[k], pos[r]):
                            found = (i, r, c, mats)
                if found is None:
                    rows.append([0, 0])
                    intact = False
                    continue
                i, r, c, mats = found
                rows.append([i, r + 1])
                if float(out.timestamps[k]) != float(clock.g(c["stamps"][r])) or \
                        np.max(np.abs(geom.quat_to_matrix(oq[k]) - mats[r])) > 1e-12 or \
                        np.max(np.abs(np.asarray(out.poses_se3[k])[:3, :3] - mats[r])) > 1e-12:
                    intact = False
            o["rows"], o["intact"] = rows, intact
            return o
        c = t["c"]
        below = _just_below(n, t)
        shrink = (1.0 - 2.0 ** -20) if below else 1.0
        diag = op == "split" and t.get("kind") == "distance" and (n // 7) % 2 == 1 and not below
        if diag:
            # the same step pattern along the diagonal of the xy plane, given as INTEGER coordinates: step lengths s * sqrt(2)
            from evo.core.trajectory import PoseTrajectory3D
            xs = np.concatenate(([0], np.cumsum(np.array(c["steps"], dtype=np.int64))))
            ipos = np.column_stack((xs, xs, np.zeros(len(xs), dtype=np.int64)))
            _, _, mats = _traj(c, 1.0, clock, "pq")
            quats = np.array([[math.cos(math.radians(h % 360) / 2), 0.0, 0.0, math.sin(math.radians(h % 360) / 2)] for h in c["heads"]])
            tr = PoseTrajectory3D(positions_xyz=ipos, orientations_quat_wxyz=quats, timestamps=clock.g(c["stamps"]))
            pos = ipos.astype(float)
        else:
            tr, pos, mats = _traj(c, u, clock, built)
        pre = (n // 5) % 4
        if pre == 1:
            _ = tr.positions_xyz
        elif pre == 2:
            _ = tr.orientations_quat_wxyz
        elif pre == 3:
            _ = tr.poses_se3
        if op == "down":
            tr.downsample(t["N"])
        elif op == "motion":
            if n % 2:
                tr.motion_filter(t["d"] * u, float(t["a"]), True)
            else:
                tr.motion_filter(t["d"] * u, math.radians(t["a"]), False)
        elif op == "crop":
            lo = None if t["lo"] == -1000 else float(clock.g(t["lo"]))
            hi = None if t["hi"] == 1000 else float(clock.g(t["hi"]))
            tr.reduce_to_time_range(lo, hi)
        elif op == "split":
            if t["kind"] == "time":
                parts = tr.split_time_gaps(t["th"] * clock.dt * shrink)
            elif t["kind"] == "distance":
                parts = tr.split_distance_gaps((t["th"] + 0.5) * math.sqrt(2.0) if diag else t["th"] * u * shrink)
            else:
                parts = tr.split_speed_outliers(0.5 * t["th"] * u / clock.dt)
            o["parts"] = []
            for p in parts:
                ids, intact = _ids_intact(p, c, clock, pos, mats)
                o["parts"].append(ids)
                o["intact"] = o["intact"] and intact
            return o
        o["ids"], o["intact"] = _ids_intact(tr, c, clock, pos, mats)
        return o
    except Exception as e:  # noqa: BLE001
        return {"out": type(e).__name__, "ids": [], "parts": [], "rows": [], "intact": True}


def run(rep, tier, seed):
    cfgs = ["MC_select_down.cfg", "MC_select_motion.cfg", "MC_select_crop.cfg",
            "MC_select_split_q.cfg" if tier == "quick" else "MC_select_split.cfg", "MC_select_merge.cfg"]
    cases = []
    for cfg in cfgs:
        r = core.tlc("select", "Select", cfg, workers=8)
        rep.add_tlc(r)
        cs = r.printed_json()
        rep.extra["m_cases_" + cfg[10:-4]] = len(cs)
        cases += cs
    for b in ("down_noendpoint", "motion_noreset", "crop_open"):
        rb = core.tlc("select", "Select", "MC_select_bug_%s.cfg" % b, workers=8, expect_ok=False)
        if rb.rc != 12:
            raise core.MachineryError("seeded model bug %s not refuted" % b)
    rng = random.Random(seed)
    if tier == "quick":           # the crop/merge spaces are large and uniform: sample them, keep down/motion/split complete
        keep = []
        for c in cases:
            if c["op"] in ("crop", "merge") and rng.random() > 0.35:
                continue
            keep.append(c)
        cases = keep
    # larger random inputs (code -> spec only)
    nrand = 300 if tier == "quick" else 5000
    for k in range(nrand):
        n = rng.randint(2, 40 if tier == "quick" else 200)
        c = {"steps": [rng.choice([0, 0, 1, 1, 2, 3, 7]) for _ in range(n - 1)],
             "heads": [0], "stamps": [0]}
        for _ in range(n - 1):
            c["heads"].append(c["heads"][-1] + rng.choice([0, 0, 10, 30, 45, 90, 180, 350]))
            c["stamps"].append(c["stamps"][-1] + rng.choice([1, 1, 2, 5, 20]))
        kind = rng.choice(["down", "motion", "crop", "split"])
        t = {"op": kind, "c": c}
        if kind == "down":
            t["N"] = rng.randint(0, n + 2)
        elif kind == "motion":
            t["d"], t["a"] = rng.choice([0, 1, 2, 5, 9, 1000]), rng.choice([0, 15, 30, 90, 100, 1000])
        elif kind == "crop":
            t["lo"], t["hi"] = rng.choice([-1000, 0, 3, c["stamps"][n // 2]]), rng.choice([1000, c["stamps"][-1], c["stamps"][n // 2], 2])
        else:
            t["kind"], t["th"] = rng.choice(["time", "distance", "speed"]), rng.choice([0, 1, 2, 4, 6])
        cases.append(t)
    import evo.core.trajectory  # noqa: F401
    obs = core.pmap(execute, [(n, c, seed) for n, c in enumerate(cases)], chunksize=300)
    traces = []
    for n, (c, o) in enumerate(zip(cases, obs)):
        t = {k: v for k, v in c.items() if k not in ("o",)}
        t["id"] = "s%d" % n
        t["o"] = o
        t["_single"] = True
        if _just_below(n, c):
            t["th"] = c["th"] - 1
        traces.append(t)
        m = None if _just_below(n, c) else c.get("o")
        if m is not None and c["op"] == "motion" and c["a"] > 0:
            hs = c["c"]["heads"]
            rel = lambda a, b: min(abs(a - b) % 360, 360 - abs(a - b) % 360)  # noqa: E731
            if any(rel(x, y) == c["a"] for x in hs for y in hs):
                m = None       # an angle threshold is hit exactly: the model's exact answer is one of two allowed ones
        if m is not None and c["op"] == "down" and "olo" in c and m.get("out") == "ok" and o.get("out") == "ok" \
                and len(o.get("ids", [])) == len(m["ids"]) and all(lo <= x <= hi for lo, x, hi in zip(c["olo"]["ids"], o["ids"], m["ids"])):
            m = None           # inside M's named floating-point deviation of np.linspace (MDownLo .. MDown)
        if m is not None:
            for key in ("ids", "parts", "out"):
                if key in m and m.get(key) != o.get(key) and c["op"] != "merge":
                    rep.drifted("%s %s: model %s, code %s" % (c["op"], {k: c[k] for k in c if k not in ("o", "c")}, m.get(key), o.get(key)))
                    break
        rep.nontriv([c["op"], c.get("c"), c.get("ins"), {k: c[k] for k in c if k in ("N", "d", "a", "lo", "hi", "kind", "th")}])
    probes = _probes(traces)
    rejects = core.validate("select", "Trace_Select", traces + probes)
    rej = {x[0] for x in rejects}
    missing = [p["id"] for p in probes if p["id"] not in rej]
    if missing or len(probes) < 3:
        core.probe_fail(rejects, "P accepted corrupted traces: %s" % missing)
    rep.extra["probes_rejected"] = len(probes)
    rep.traces = len(traces)
    for tid, clause, _ in rejects:
        if tid.startswith("probe"):
            continue
        n = int(tid[1:])
        c = cases[n]
        rep.violation({"clause": clause, "op": c["op"], "kind": c.get("kind", "-")},
                      {"case": {k: v for k, v in c.items() if k != "o"}, "observed": obs[n], "n": n, "seed": seed})
    for t in traces[:1] + traces[len(traces) // 3:len(traces) // 3 + 1] + traces[-1:]:
        rep.sample({k: v for k, v in t.items() if k != "_single"})
    rep.rule = ("TLC enumerates, per operation, all small inputs (down-sampling: count<=12 x N<=14; motion filter: <=4 poses x steps{0,1,3} "
                "x heading steps{0,30,90,180} x 6 distance x 6 angle thresholds incl. exact hits; crop: all bounds incl. none/outside/empty; "
                "three split kinds; merges of up to 3 interleaved/overlapping trajectories) + seeded random inputs up to 200 poses; "
                "each executed on real PoseTrajectory3D objects (both construction kinds, cache histories, units, clocks) and judged by SelectProps")
    rep.assumptions = ["steps along one axis with integer lengths, headings on the 1-degree grid, dyadic stamps",
                       "angle thresholds hit exactly: either answer accepted (envelope); distance/time thresholds exact"]


def _probes(traces):
    import copy
    out = []
    for op in ("down", "motion", "crop", "split", "merge"):
        for t in traces:
            if t["op"] != op or t["o"]["out"] != "ok":
                continue
            p = copy.deepcopy(t)
            p["id"] = "probe." + op
            if op == "split":
                if len(p["o"]["parts"]) < 1 or len(p["o"]["parts"][0]) < 2:
                    continue
                p["o"]["parts"] = [p["o"]["parts"][0][:1], p["o"]["parts"][0][1:]] + p["o"]["parts"][1:]
                if p["c"]["steps"][0] > p["th"] or p["kind"] != "distance":
                    continue
            elif op == "merge":
                if len(p["o"]["rows"]) < 2:
                    continue
                p["o"]["rows"] = p["o"]["rows"][:-1]
            else:
                if len(p["o"]["ids"]) < 2:
                    continue
                p["o"]["ids"] = p["o"]["ids"][1:]
            out.append(p)
            break
    return out


def selftest(rep):
    ok = True
    for b in ("down_noendpoint", "motion_noreset", "crop_open"):
        rb = core.tlc("select", "Select", "MC_select_bug_%s.cfg" % b, workers=8, expect_ok=False)
        ok &= rb.rc == 12
    return ok


def replay(rep, path):
    import json
    body = json.load(open(path))
    d = body["detail"]
    o = execute((d["n"], d["case"], d["seed"]))
    print("observed:", o)
    t = dict(d["case"])
    t.update({"id": "replay", "o": o, "_single": True})
    if _just_below(d["n"], d["case"]):
        t["th"] = d["case"]["th"] - 1
    rej = core.validate("select", "Trace_Select", [t], workers=2)
    if rej:
        print("VIOLATION property=C11 replay=%s clause=%s" % (path, rej[0][1]))
        return 1
    print("replay accepted by P")
    return 0

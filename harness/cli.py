"""In-process runs of the evo command line tools with input() patched (prompts recorded) in a scratch cwd."""
import builtins
import contextlib
import io
import logging
import os
import sys


class PromptLog(logging.Filter):
    """records the path named by evo.tools.user's 'exists, overwrite?' warning (for attributing prompts)"""

    def __init__(self):
        super().__init__()
        self.paths = []

    def filter(self, record):
        try:
            if "exists, overwrite" in str(record.msg) and record.args:
                a = record.args if isinstance(record.args, tuple) else (record.args,)
                self.paths.append(os.fspath(a[0]))
        except Exception:
            pass
        return True


@contextlib.contextmanager
def prompting(answers, on_prompt=None):
    """patch input(): answers are consumed in order (exhausted -> 'n'); yields the list of prompts
    [{'msg','answer','path'}] filled while the body runs"""
    import evo.tools.user  # noqa: F401
    flt = PromptLog()
    lg = logging.getLogger("evo.tools.user")
    lg.addFilter(flt)
    prompts = []
    answers = list(answers)
    orig = builtins.input

    def fake_input(msg=""):
        a = answers.pop(0) if answers else "n"
        path = flt.paths.pop(0) if flt.paths else None
        flt.paths.clear()
        p = {"msg": str(msg), "answer": a, "path": path}
        if on_prompt:
            on_prompt(p)
        prompts.append(p)
        if a == "EOF":          # standard input at end-of-file: nobody answered
            raise EOFError("EOF when reading a line")
        return a
    builtins.input = fake_input
    try:
        yield prompts
    finally:
        builtins.input = orig
        lg.removeFilter(flt)


def run_cli(app, argv, cwd, answers=(), on_prompt=None, quiet=True):
    """app in {ape,rpe,traj,res,config}.  Returns dict(code, exc, prompts)."""
    old_argv, old_cwd = sys.argv, os.getcwd()
    os.chdir(cwd)
    sys.argv = ["evo_" + app] + [str(a) for a in argv]
    out = io.StringIO()
    res = {"code": 0, "exc": "none", "prompts": []}
    try:
        with prompting(answers, on_prompt) as prompts:
            with contextlib.redirect_stdout(out if quiet else sys.stdout), contextlib.redirect_stderr(out if quiet else sys.stderr):
                try:
                    if app == "config":
                        from evo import main_config
                        main_config.main()
                    else:
                        from evo import entry_points
                        getattr(entry_points, app)()
                except SystemExit as e:
                    res["code"] = e.code if isinstance(e.code, int) else (0 if e.code is None else 1)
                except Exception as e:  # noqa: BLE001
                    res["exc"] = type(e).__name__ + ": " + str(e)[:200]
            res["prompts"] = prompts
    finally:
        sys.argv = old_argv
        os.chdir(old_cwd)
        try:
            import matplotlib.pyplot as plt
            plt.close("all")
        except Exception:
            pass
        lg = logging.getLogger("evo")
        for h in list(lg.handlers):
            if not isinstance(h, logging.NullHandler):
                lg.removeHandler(h)
                try:
                    h.close()
                except Exception:
                    pass
        if not lg.handlers:
            lg.addHandler(logging.NullHandler())
    res["out"] = out.getvalue()
    return res


def write_tum(path, stamps, positions, quats_xyzw=None):
    """independent writer of the TUM convention: 'timestamp tx ty tz qx qy qz qw'"""
    with open(path, "w") as f:
        for k, (t, p) in enumerate(zip(stamps, positions)):
            q = quats_xyzw[k] if quats_xyzw is not None else (0.0, 0.0, 0.0, 1.0)
            f.write(" ".join(repr(float(v)) for v in (t, *p, *q)) + "\n")

"""Shared machinery: TLC runner, case emission, batch trace validation, evidence,
known findings, replay files.  See DESIGN.md sections 2 and 4.

Rule (DESIGN 2): M (a TLA+ model) generates cases, the real code executes them,
P (a TLA+ property spec evaluated by TLC over the recorded traces) judges.
A VIOLATION is only ever "TLC rejected a trace recorded from the real code".
"""
import hashlib
import json
import os
import re
import shutil
import subprocess
import sys
import tempfile
import time

VERIF = os.path.dirname(os.path.dirname(os.path.abspath(__file__)))
# evidence/ and replays/ normally live in /verif; tools/seed_matrix.py redirects them when it runs checks against scratch worktrees
OUT = os.environ.get("VERIF_OUT", VERIF)
SPEC = os.path.join(VERIF, "spec")
WORKROOT = os.path.join(VERIF, ".work")
JAR = "/opt/veriftools/tla/tla2tools.jar:/opt/veriftools/tla/CommunityModules-deps.jar"
NCPU = os.cpu_count() or 4


class MachineryError(Exception):
    """Anything that is not a verdict about the property (exit 2)."""


# --------------------------------------------------------------------------- work dirs
_workdir = None


def workdir():
    """One scratch dir per process under /verif/.work; HOME is redirected into it
    before evo is imported (evo writes ~/.evo at import time)."""
    global _workdir
    if _workdir is None:
        os.makedirs(WORKROOT, exist_ok=True)
        _workdir = tempfile.mkdtemp(prefix="run_", dir=WORKROOT)
        home = os.path.join(_workdir, "home")
        os.makedirs(home, exist_ok=True)
        os.environ["HOME"] = home
        os.environ.setdefault("MPLBACKEND", "Agg")
        os.environ["PYTHONHASHSEED"] = "0"
    return _workdir


def cleanup():
    global _workdir
    if _workdir and os.path.isdir(_workdir) and not os.environ.get("VERIF_KEEP"):
        shutil.rmtree(_workdir, ignore_errors=True)
    _workdir = None


def subdir(name):
    d = os.path.join(workdir(), name)
    os.makedirs(d, exist_ok=True)
    return d


# --------------------------------------------------------------------------- TLC
_STATS = re.compile(r"(\d+) states generated, (\d+) distinct states found")


class TLCResult:
    def __init__(self, rc, out, wall):
        self.rc, self.out, self.wall = rc, out, wall
        m = None
        for m in _STATS.finditer(out):
            pass
        self.generated = int(m.group(1)) if m else 0
        self.distinct = int(m.group(2)) if m else 0
        self.lines = out.splitlines()

    def printed_json(self):
        """Values printed with PrintT(ToJson(x)): a TLA+ string literal per line."""
        res = []
        for ln in self.lines:
            if len(ln) > 3 and ln[0] == '"' and ln[1] in "{[" and ln[-1] == '"':
                s = ln[1:-1].replace('\\"', '"').replace("\\\\", "\\")
                try:
                    res.append(json.loads(s))
                except ValueError:
                    raise MachineryError("unparsable PrintT line: " + ln[:200])
        return res

    def tuples(self, tag):
        """Values printed with PrintT(<<"TAG", ...>>); TLC wraps long tuples over several lines,
        so lines are joined until the brackets balance.  Returns a list of field lists."""
        res = []
        pat = re.compile(r'^<<\s*"%s"' % re.escape(tag))
        i, n = 0, len(self.lines)
        while i < n:
            ln = self.lines[i]
            if pat.match(ln):
                buf = ln
                while _balance(buf) > 0 and i + 1 < n:
                    i += 1
                    buf += " " + self.lines[i].strip()
                body = buf.strip()[2:-2]
                res.append(_split_tuple(body))
            i += 1
        return res

    def coverage(self):
        """-coverage 1 output: {action name: (distinct, total)} from the last report."""
        cov = {}
        for ln in self.lines:
            m = re.match(r"<(\w+) line \d+, col \d+ to line \d+, col \d+ of module (\w+)>: (\d+):(\d+)", ln)
            if m:
                cov[m.group(1)] = (int(m.group(3)), int(m.group(4)))
        return cov


def _balance(s):
    depth, instr, i = 0, False, 0
    while i < len(s):
        c = s[i]
        if instr:
            if c == "\\":
                i += 1
            elif c == '"':
                instr = False
        elif c == '"':
            instr = True
        elif c == "<" and s[i:i + 2] == "<<":
            depth += 1
            i += 1
        elif c == ">" and s[i:i + 2] == ">>":
            depth -= 1
            i += 1
        elif c in "[{(":
            depth += 1
        elif c in "]})":
            depth -= 1
        i += 1
    return depth


def _split_tuple(body):
    out, cur, depth, instr = [], "", 0, False
    i = 0
    while i < len(body):
        c = body[i]
        if instr:
            if c == "\\" and i + 1 < len(body):
                cur += body[i + 1]
                i += 2
                continue
            if c == '"':
                instr = False
            else:
                cur += c
        elif c == '"':
            instr = True
        elif c in "<[{(":
            depth += 1
            cur += c
        elif c in ">]})":
            depth -= 1
            cur += c
        elif c == "," and depth == 0:
            out.append(cur.strip())
            cur = ""
        else:
            cur += c
        i += 1
    if cur.strip() or out:
        out.append(cur.strip())
    res = []
    for f in out:
        try:
            res.append(int(f))
        except ValueError:
            res.append(f)
    return res


def tlc(area, module, cfg, env=None, workers=None, extra=(), timeout=3600, expect_ok=True,
        heap="6g", simulate=None):
    """Run TLC on spec/<area>/<module>.tla with config <cfg> (file name in that dir).
    Returns TLCResult. Raises MachineryError when TLC fails for a reason other than a
    checked property (parse errors, evaluation errors, timeouts)."""
    d = os.path.join(SPEC, area)
    meta = tempfile.mkdtemp(prefix="tlc_", dir=workdir())
    cmd = ["java", "-XX:+UseParallelGC", "-Xss64m", "-Xmx" + heap, "-Djava.io.tmpdir=" + meta,      # TLC unpacks its modules into java.io.tmpdir
           "-DTLA-Library=" + os.pathsep.join([os.path.join(SPEC, "lib")] + sorted(
               os.path.join(SPEC, x) for x in os.listdir(SPEC) if x != "lib" and x != area and os.path.isdir(os.path.join(SPEC, x)))),
           "-cp", JAR, "tlc2.TLC", "-metadir", meta, "-noGenerateSpecTE",
           "-workers", str(workers or NCPU), "-config", cfg]
    if simulate:
        cmd += ["-simulate", simulate]
    cmd += list(extra) + [module]
    e = dict(os.environ)
    if env:
        e.update({k: str(v) for k, v in env.items()})
    t0 = time.time()
    try:
        p = subprocess.run(cmd, cwd=d, env=e, stdout=subprocess.PIPE, stderr=subprocess.STDOUT,
                           timeout=timeout, text=True, errors="replace")
    except subprocess.TimeoutExpired:
        raise MachineryError("TLC timeout on %s/%s %s" % (area, module, cfg))
    finally:
        shutil.rmtree(meta, ignore_errors=True)
    r = TLCResult(p.returncode, p.stdout, time.time() - t0)
    if expect_ok and r.rc != 0:
        tail = "\n".join(r.lines[-40:])
        raise MachineryError("TLC rc=%d on %s/%s %s\n%s" % (r.rc, area, module, cfg, tail))
    return r


# --------------------------------------------------------------------------- batch trace validation (P judges)
def validate(area, module, traces, cfg=None, env=None, workers=None, chunk=None, timeout=3600, parallel=4):
    """Validate recorded traces against P.  `traces` is a list of dicts with an 'id'.
    Trace_<X>.tla has Init == tid \\in 1..Len(Traces), one Verdict step per trace (or one
    step per event) and prints <<"REJECT", id, clause, ...>> for every trace P does not allow.
    Acceptance is total: TLC must report exactly the expected number of distinct states.
    Large batches are split into chunks validated by concurrent TLC processes.
    Returns list of (id, clause, rest)."""
    if not traces:
        return []
    cfg = cfg or (module + ".cfg")
    if chunk is None:
        chunk = len(traces) if len(traces) < 4000 else -(-len(traces) // parallel)
    parts = [traces[k:k + chunk] for k in range(0, len(traces), chunk)]
    w = workers or max(2, NCPU // max(1, min(len(parts), parallel)))

    def one(args):
        k, part = args
        f = os.path.join(workdir(), "traces_%s_%d_%d.json" % (module, os.getpid(), k))
        with open(f, "w") as fh:
            json.dump(part, fh)
        e = {"TRACE_FILE": f}
        if env:
            e.update(env)
        try:
            r = tlc(area, module, cfg, env=e, workers=w, timeout=timeout)
        finally:
            os.unlink(f)
        expected = sum((len(t["ev"]) + 1 if ("ev" in t and not t.get("_single")) else 2) for t in part)
        rej = r.tuples("REJECT")
        # a rejected multi-event trace stops early: it contributes fewer states
        if not rej and r.distinct != expected:
            raise MachineryError("trace validation of %s: %d distinct states, expected %d\n%s" % (
                module, r.distinct, expected, "\n".join(r.lines[-30:])))
        if rej and r.distinct > expected:
            raise MachineryError("trace validation of %s: too many states" % module)
        return [(t[1], t[2] if len(t) > 2 else "?", t[3:] if len(t) > 3 else []) for t in rej]

    if len(parts) == 1:
        return one((0, parts[0]))
    from concurrent.futures import ThreadPoolExecutor
    rejects = []
    with ThreadPoolExecutor(parallel) as ex:
        for r in ex.map(one, enumerate(parts)):
            rejects.extend(r)
    return rejects


# --------------------------------------------------------------------------- known findings
def load_findings():
    res = []
    p = os.path.join(VERIF, "KNOWN_FINDINGS.txt")
    if not os.path.exists(p):
        return res
    for ln in open(p):
        ln = ln.strip()
        if not ln.startswith("finding:"):
            continue
        head, _, text = ln[len("finding:"):].partition("::")
        kv = dict(x.split("=", 1) for x in head.split())
        res.append({"property": kv.pop("property"), "match": kv, "text": text.strip()})
    return res


# --------------------------------------------------------------------------- report
class Report:
    """Collects what one run of one check covered and decides the exit code."""

    def __init__(self, pid, tier, seed, level="model_checking"):
        self.pid, self.tier, self.seed, self.level = pid, tier, seed, level
        self.t0 = time.time()
        self.states = 0
        self.transitions = 0
        self.traces = 0
        self.evaluations = 0
        self.nontrivial = set()
        self.samples = []
        self.violations = []      # (keys dict, replay path)
        self.known_hits = {}      # finding text -> count
        self.drift = 0
        self.notes = []
        self.extra = {}
        self.assumptions = []
        self.exhaustive = None
        self.rule = ""
        self.findings = [f for f in load_findings() if f["property"] == pid]

    # -- bookkeeping
    def add_tlc(self, r):
        self.states += r.distinct
        self.transitions += r.generated

    def sample(self, case, limit=4):
        if len(self.samples) < limit:
            self.samples.append(case)

    def nontriv(self, key):
        self.nontrivial.add(hashlib.sha1(json.dumps(key, sort_keys=True, default=str).encode()).hexdigest()[:16])

    def note(self, s):
        self.notes.append(s)
        print("NOTE: " + s)

    def drifted(self, what):
        self.drift += 1
        if self.drift <= 5:
            print("MODEL-DRIFT property=%s %s" % (self.pid, what))

    # -- verdicts
    def violation(self, keys, detail):
        """keys: dict of abstract attributes of the failing case incl. 'clause'."""
        for f in self.findings:
            if all(str(keys.get(k)) == v for k, v in f["match"].items()):
                self.known_hits[f["text"]] = self.known_hits.get(f["text"], 0) + 1
                return False
        d = os.path.join(OUT, "replays", self.pid)
        os.makedirs(d, exist_ok=True)
        body = {"property": self.pid, "tier": self.tier, "seed": self.seed, "keys": keys, "detail": detail}
        h = hashlib.sha1(json.dumps(body, sort_keys=True, default=str).encode()).hexdigest()[:12]
        path = os.path.join(d, h + ".json")
        if len(self.violations) < 25:      # every violation is counted, the first 25 get a replay file
            with open(path, "w") as fh:
                json.dump(body, fh, indent=1, default=str)
        self.violations.append((keys, path))
        return True

    def finish(self):
        wall = time.time() - self.t0
        cov = {
            "states": self.states, "transitions": self.transitions,
            "traces_validated_against_impl": self.traces,
            "evaluations": max(self.evaluations, self.traces),
            "distinct_nontrivial": len(self.nontrivial),
            "rule": self.rule, "samples": self.samples[:6],
            "model_drift": self.drift, "known_findings_hit": sum(self.known_hits.values()),
            "notes": self.notes,
        }
        if self.exhaustive is not None:
            cov["exhaustive"] = bool(self.exhaustive)
        cov.update(self.extra)
        ev = {"property_id": self.pid, "tier": self.tier, "seed": self.seed, "level": self.level,
              "coverage": cov, "assumptions": self.assumptions, "wall_s": round(wall, 2),
              "violations": len(self.violations)}
        os.makedirs(os.path.join(OUT, "evidence"), exist_ok=True)
        with open(os.path.join(OUT, "evidence", self.pid + ".json"), "w") as fh:
            json.dump(ev, fh, indent=1, default=str)
        for text, n in self.known_hits.items():
            print("KNOWN-FINDING: property=%s %s (%d cases)" % (self.pid, text, n))
        seen = set()
        for keys, path in self.violations[:20]:
            print("VIOLATION property=%s replay=%s  %s" % (self.pid, path, json.dumps(keys, default=str)[:300]))
        if len(self.violations) > 20:
            print("... %d more violations" % (len(self.violations) - 20))
        print("%s %s: states=%d traces=%d nontrivial=%d drift=%d violations=%d wall=%.1fs" % (
            self.pid, self.tier, self.states, self.traces, len(self.nontrivial), self.drift,
            len(self.violations), wall))
        return 1 if self.violations else 0


def chunks(lst, n):
    for i in range(0, len(lst), n):
        yield lst[i:i + n]


def pmap(func, items, procs=None, chunksize=4):
    """fork-based parallel map (the parent has already imported what the workers need)"""
    import multiprocessing as mp
    items = list(items)
    if len(items) < 8 or (procs or NCPU) <= 1:
        return [func(x) for x in items]
    ctx = mp.get_context("fork")
    with ctx.Pool(procs or min(NCPU, 12)) as pool:
        return pool.map(func, items, chunksize=chunksize)


def probe_fail(rejects, msg):
    """A probe (corrupted copy of a trace recorded from the code) was accepted by P.  On a tree whose own traces P accepts this
    means P or the trace module lost its grip: machinery failure.  On a tree whose own traces P REJECTS the probes are corrupted copies
    of wrong traces and a corruption can repair one (a crop that keeps one pose too many, minus its first id) - then the rejections
    are what has to be reported, and the probe outcome says nothing."""
    real = [r for r in rejects if not str(r[0]).startswith("probe")]
    if real:
        print("NOTE probes not decisive on this tree (%d of the code's own traces are rejected by P): %s" % (len(real), msg))
        return
    raise MachineryError(msg)


def name_form(stem, ext, n):
    """the same file under another NAME (sixth seeded round): evo decides what a file is by its content or by the option it is given
    to, never by its name - so a usual name, an upper-case extension, no extension, a second suffix, a blank or several dots in the
    name must all behave alike.  n selects the form."""
    forms = [stem + ext, stem + ext.upper(), stem, stem + ext + ".bak", "my " + stem + ext, stem + ".v2" + ext, stem + ".run1"]
    return forms[n % len(forms)]


def alt_tmpdir(fn):
    """decorator for job functions job=(n, ...): every other job runs with the process's temporary directory (TMPDIR, tempfile.tempdir)
    on ANOTHER file system (tmpfs /dev/shm) than the scratch directory the files under test live in - the environment is not part of
    any property's quantifier, so nothing may depend on it.  The harness's own scratch directories are created with an explicit dir=."""
    import functools

    @functools.wraps(fn)
    def wrapper(job):
        import tempfile
        n = job[0] if isinstance(job, (tuple, list)) and isinstance(job[0], int) else 0
        if n % 2 == 0 or not (os.path.isdir("/dev/shm") and os.access("/dev/shm", os.W_OK)):
            return fn(job)
        workdir()
        d = tempfile.mkdtemp(prefix="verif_tmp_", dir="/dev/shm")
        old_env, old_td = os.environ.get("TMPDIR"), tempfile.tempdir
        os.environ["TMPDIR"] = d
        tempfile.tempdir = d
        try:
            return fn(job)
        finally:
            tempfile.tempdir = old_td
            if old_env is None:
                os.environ.pop("TMPDIR", None)
            else:
                os.environ["TMPDIR"] = old_env
            shutil.rmtree(d, ignore_errors=True)
    return wrapper

"""Executes the metric cases of spec/metrics (APE, RPE, statistics, unit changes) on evo.core.metrics and
abstracts the results (alpha)."""
import math

import numpy as np

import geom
import trajexec

REL = {"full": "full_transformation", "trans": "translation_part", "rotpart": "rotation_part", "rad": "rotation_angle_rad",
       "deg": "rotation_angle_deg", "pdist": "point_distance", "ratio": "point_distance_error_ratio"}
UNITNAME = {"mm": "millimeters", "cm": "centimeters", "m": "meters", "km": "kilometers", "deg": "degrees", "rad": "radians",
            "none": "none", "frames": "frames", "percent": "percent", "s": "seconds"}


def build(poses, built, u, kind="path", stamps=None):
    gm = trajexec.Gamma(u)
    return trajexec.build([(p["r"], p["p"]) for p in poses], stamps if stamps is not None else list(range(len(poses))), built, gm, kind)


def alpha_err(rel, v, u):
    v = float(v)
    if rel in ("trans",):
        return trajexec.sq_units(v, u)
    if rel == "pdist_ape":
        return trajexec.sq_units(v, u)
    if rel in ("rotpart", "full"):
        r = round(v * v)
        return int(r) if abs(v * v - r) < 1e-6 * max(1.0, v * v) else -1
    if rel == "rad":
        v = math.degrees(v)
    r = round(v)
    return int(r) if abs(v - r) < 1e-7 else -1


def exec_ape(job):
    from evo.core import metrics
    n, c, seed = job
    u = 1.0 if c["rel"] == "full" else [1.0, 0.25, 1024.0][(n + seed) % 3]
    if not c["ref"] or not c["est"]:
        # evo refuses empty trajectories at construction; unequal lengths with an empty side cannot be expressed
        return {"out": "MetricsException", "skipped": True}
    ref = build(c["ref"], "se3" if n % 2 else "pq", u)
    est = build(c["est"], "pq" if (n // 2) % 2 else "se3", u)
    m = metrics.APE(getattr(metrics.PoseRelation, REL[c["rel"]]))
    if (n // 4) % 2:          # the same metric object was used on other data before (nothing may carry over)
        try:
            m.process_data((est, est))
            m.get_all_statistics()
        except Exception:  # noqa: BLE001
            pass
    try:
        m.process_data((ref, est))
    except metrics.MetricsException:
        return {"out": "MetricsException"}
    except Exception as e:  # noqa: BLE001
        return {"out": type(e).__name__}
    rel = "trans" if c["rel"] == "pdist" else c["rel"]
    return {"out": "ok", "err": [alpha_err(rel, v, u) for v in m.error]}


def exec_rpe(job):
    from evo.core import filters, metrics
    import contextlib
    import io
    n, c, seed = job
    u = 1.0 if c["rel"] == "full" else [1.0, 0.25, 1024.0][(n + seed) % 3]
    if c["rel"] == "ratio" and c["q"]["unit"] != "meters" and (n // 3) % 2:
        u = 2.0 ** -40          # a reference creeping by picometres: tiny, but not zero, distances are not skipped
    ref = build(c["ref"], "se3" if n % 2 else "pq", u)
    est = build(c["est"], "pq" if (n // 2) % 2 else "se3", u)
    q = c["q"]
    unit = {"frames": metrics.Unit.frames, "meters": metrics.Unit.meters, "degrees": metrics.Unit.degrees, "radians": metrics.Unit.radians}[q["unit"]]
    delta = {"frames": q["d"], "meters": q["d"] * u, "degrees": float(q["d"]), "radians": math.radians(q["d"])}[q["unit"]]
    rec = {}
    orig = metrics.id_pairs_from_delta

    def spy(poses, *a, **kw):       # stage wrapper: which trajectory drives the selection, and what it returned
        def same(t):             # by identity or by content of the public view (no private names)
            q = t.poses_se3
            return poses is q or (len(poses) == len(q) and all(a is b or np.array_equal(a, b) for a, b in zip(poses, q)))
        is_ref, is_est = same(ref), same(est)
        rec["driver"] = "both" if is_ref and is_est else "ref" if is_ref else "est" if is_est else "other"
        prs = orig(poses, *a, **kw)
        rec["pairs"] = [[int(i), int(j)] for i, j in prs]
        return prs
    _ = ref.poses_se3, est.poses_se3
    metrics.id_pairs_from_delta = spy
    try:
        m = metrics.RPE(getattr(metrics.PoseRelation, REL[c["rel"]]), delta, unit, q["tn"] / q["td"], q["all"], c["fromref"])
        with contextlib.redirect_stdout(io.StringIO()):
            if (n // 4) % 2:          # the same metric object was used on other data before (nothing may carry over)
                try:
                    m.process_data((est, ref))
                    m.get_all_statistics()
                except Exception:  # noqa: BLE001
                    pass
                rec.clear()
            m.process_data((ref, est))
    except filters.FilterException:
        return {"out": "FilterException"}
    except metrics.MetricsException:
        return {"out": "MetricsException"}
    except Exception as e:  # noqa: BLE001
        return {"out": type(e).__name__}
    finally:
        metrics.id_pairs_from_delta = orig
    err = []
    for v in m.error:
        if c["rel"] == "pdist":
            x = float(v) / u
            err.append(int(round(x)) if abs(x - round(x)) < 1e-7 else -1)
        elif c["rel"] == "ratio":
            err.append(geom.frac(float(v), 1 << 10, 1e-9) or [-1, 1])
        else:
            err.append(alpha_err(c["rel"], v, u))
    return {"out": "ok", "driver": rec.get("driver", "none"), "pairs": rec.get("pairs", []), "err": err,
            "ids": [int(x) for x in m.delta_ids]}


def exec_stats(job):
    from evo.core import metrics
    n, c, seed = job
    scale = [1.0, 2.0 ** -10, 2.0 ** 12, 0.1, 1.0 / 3.0][(n + seed) % 5]
    shift = [0.0, 0.0, 2.0 ** 30, 0.0, 2.0 ** 22][(n // 5 + seed) % 5] if scale in (1.0, 2.0 ** -10) else 0.0
    m = metrics.APE()
    m.error = scale * (np.array(c["e"], dtype=float) + shift)
    st = m.get_all_statistics()
    bad = [-1, 1]

    def f(x, k, sub=0.0):
        v = (float(x) - sub) / scale ** k
        # a shifted value carries the rounding of the large number it was part of (8 ulp)
        return geom.frac(v, 1 << 12, 1e-9, abstol=2e-15 * abs(float(x)) / scale ** k) or bad

    def fstd(x):
        v = float(x) / scale
        if not math.isfinite(v) or v < 0:
            return bad
        if v <= 1e-12 + 2e-15 * (shift + 1):
            return [0, 1]
        if v < 1e-6:
            return bad                      # a standard deviation that is neither zero nor a lattice value
        return geom.frac(v * v, 1 << 12, 1e-9, abstol=1e-14 * (shift + 1) * v) or bad
    try:
        sub = scale * shift
        return {"shifted": shift != 0.0, "sse": f(st["sse"], 2), "rmse2": f(st["rmse"] ** 2, 2), "mean": f(st["mean"], 1, sub),
                "median": f(st["median"], 1, sub), "std2": fstd(st["std"]), "min": f(st["min"], 1, sub), "max": f(st["max"], 1, sub)}
    except Exception as e:  # noqa: BLE001
        return {"shifted": False, "sse": bad, "rmse2": bad, "mean": bad, "median": bad, "std2": bad, "min": bad, "max": bad, "error": type(e).__name__}


def exec_units(job):
    from evo.core import metrics
    n, c, seed = job
    m = metrics.APE()
    m.unit = getattr(metrics.Unit, UNITNAME[c["from"]])
    before = np.array([1.0, 2.0, 0.5, 4.0])
    m.error = before.copy()
    out = "ok"
    try:
        m.get_all_statistics()          # statistics are taken before the conversion as well (history: stats, convert, stats)
        m.get_result()
        m.change_unit(getattr(metrics.Unit, UNITNAME[c["to"]]))
    except metrics.MetricsException:
        out = "MetricsException"
    except Exception as e:  # noqa: BLE001
        out = type(e).__name__
    after = np.asarray(m.error, dtype=float)
    k10, pi = 99, 0
    if after.shape == before.shape and np.all(after != 0):
        ratios = after / before
        if np.max(np.abs(ratios / ratios[0] - 1)) < 1e-12:
            r = float(ratios[0])
            for p in (0, 1, -1):
                rr = r / (180.0 / math.pi) ** p
                k = round(math.log10(rr)) if rr > 0 else 99
                if rr > 0 and abs(rr / 10.0 ** k - 1) < 1e-12:
                    k10, pi = int(k), p
                    break
    unit = [k for k, v in UNITNAME.items() if getattr(metrics.Unit, v) is m.unit]
    follow = True
    if after.shape == before.shape and after.size:
        st = m.get_all_statistics()
        ref = {"rmse": math.sqrt(float(np.mean(after ** 2))), "sse": float(np.sum(after ** 2)), "mean": float(np.mean(after)),
               "median": float(np.median(after)), "std": float(np.std(after)), "min": float(np.min(after)), "max": float(np.max(after))}
        follow = all(abs(float(st[k]) - v) <= 1e-12 * max(1.0, abs(v)) for k, v in ref.items())
    # the same conversion on an all-zero error array (identical trajectories): accepted / refused alike, unit updated alike
    z = metrics.APE()
    z.unit = getattr(metrics.Unit, UNITNAME[c["from"]])
    z.error = np.zeros(4)
    zout = "ok"
    try:
        z.change_unit(getattr(metrics.Unit, UNITNAME[c["to"]]))
    except metrics.MetricsException:
        zout = "MetricsException"
    except Exception as e:  # noqa: BLE001
        zout = type(e).__name__
    zunit = [k for k, v in UNITNAME.items() if getattr(metrics.Unit, v) is z.unit]
    return {"out": out, "unit": unit[0] if unit else "?", "k10": k10, "pi": pi, "stats_follow": bool(follow),
            "zout": zout, "zunit": zunit[0] if zunit else "?"}


def exec_ape_axisangle(job):
    """reference attitudes from O24, estimate = reference * rotation about a coordinate axis by a symbolic angle"""
    from evo.core import metrics
    from evo.core.trajectory import PosePath3D
    from drivers import c09
    n, c, seed = job
    refm, estm = [], []
    for k, a in enumerate(c["angs"]):
        R = geom.o24_matrix(geom.rot(c["rots"][k]))
        D = c09.axis_rot(c["axes"][k], c["signs"][k] * c09.ang_value(a))
        p = np.array([float(k), 2.0, -1.0])
        refm.append(geom.se3(R, p))
        estm.append(geom.se3(R @ D if n % 2 else D @ R, p + np.array([0.5, 0, 0])))
    ref, est = PosePath3D(poses_se3=refm), PosePath3D(poses_se3=estm)
    m = metrics.APE(metrics.PoseRelation.rotation_angle_rad if c["rel"] == "rad" else metrics.PoseRelation.rotation_angle_deg)
    try:
        m.process_data((ref, est))
    except Exception as e:  # noqa: BLE001
        return {"out": type(e).__name__, "ang": []}
    vals = [float(v) if c["rel"] == "rad" else math.radians(float(v)) for v in m.error]
    return {"out": "ok", "ang": [c09.norm_ang(c09.alpha_angle(v)) for v in vals]}


def exec_companion(job):
    """main_ape.ape() / main_rpe.rpe(): companion arrays, stored trajectories, title/label, unit after change_unit"""
    import contextlib
    import io
    from evo import main_ape, main_rpe
    from evo.core import metrics
    n, c, seed = job
    u = [1.0, 0.25][(n + seed) % 2]
    clock = geom.CLOCKS[(n + seed) % len(geom.CLOCKS)]
    stamps = c["stamps"]
    ref = build(c["ref"], "se3" if n % 2 else "pq", u, "traj", stamps)
    est = build(c["est"], "pq" if (n // 2) % 2 else "se3", u, "traj", stamps)
    ref.timestamps = clock.g(stamps)
    est.timestamps = clock.g(stamps)
    rel = getattr(metrics.PoseRelation, REL[c["rel"]])
    change = getattr(metrics.Unit, UNITNAME[c["change"]]) if c["change"] != "none" else None
    rec = {"pairs": []}
    orig = metrics.id_pairs_from_delta

    def spy(poses, *a, **kw):
        prs = orig(poses, *a, **kw)
        rec["pairs"] = [[int(i), int(j)] for i, j in prs]
        return prs
    metrics.id_pairs_from_delta = spy
    try:
        with contextlib.redirect_stdout(io.StringIO()):
            if c["metric"] == "ape":
                res = main_ape.ape(ref, est, rel, change_unit=change)
                mname = "APE"
            else:
                q = c["q"]
                unit = {"frames": metrics.Unit.frames, "meters": metrics.Unit.meters, "degrees": metrics.Unit.degrees}[q["unit"]]
                delta = {"frames": q["d"], "meters": q["d"] * u, "degrees": float(q["d"])}[q["unit"]]
                res = main_rpe.rpe(ref, est, rel, delta, unit, q["tn"] / q["td"], q["all"], c["fromref"], change_unit=change,
                                   support_loop=bool((n // 3) % 2))         # repeated calls on the same objects: same result required
                mname = "RPE"
    except Exception as e:  # noqa: BLE001
        return {"out": type(e).__name__, "nerr": 0, "ts": [], "sfs": [], "dist": [], "dfs": [], "ids": [], "st_est": [], "st_ref": [],
                "title_ok": True, "label_ok": True, "pairs": []}
    finally:
        metrics.id_pairs_from_delta = orig
    arr = res.np_arrays

    def ints(a, f):
        out = []
        for x in np.asarray(a, dtype=float):
            v = f(x)
            out.append(v if v is not None else -99999)
        return out
    tick = lambda x: clock.a(x)  # noqa: E731
    def dsec(x):
        q = float(x) / clock.dt
        return int(round(q)) if abs(q - round(q)) < 1e-6 else None
    def dlen(x):
        q = float(x) / u
        return int(round(q)) if abs(q - round(q)) < 1e-6 else None
    unit_after = (change or {"trans": metrics.Unit.meters, "pdist": metrics.Unit.meters, "deg": metrics.Unit.degrees,
                             "rad": metrics.Unit.radians, "ratio": metrics.Unit.percent}.get(c["rel"], metrics.Unit.none)).value
    title, label = res.info.get("title", ""), res.info.get("label", "")
    first_line = title.split("\\n")[0]
    ids = []
    st_est = ints(res.trajectories["estimate"].timestamps, tick)
    if c["metric"] == "rpe":
        lookup = {t: k for k, t in enumerate(stamps)}
        ids = [lookup.get(t, -1) for t in st_est[1:]]
        if len(arr.get("timestamps", [])) != len(ids):
            ids = [lookup.get(t, -1) for t in ints(arr["timestamps"], tick)]
    return {"out": "ok", "nerr": int(len(arr["error_array"])), "ts": ints(arr["timestamps"], tick), "sfs": ints(arr["seconds_from_start"], dsec),
            "dist": ints(arr["distances"], dlen), "dfs": ints(arr["distances_from_start"], dlen), "ids": ids, "pairs": rec["pairs"],
            "st_est": st_est, "st_ref": ints(res.trajectories["reference"].timestamps, tick),
            "title_ok": bool(mname in first_line and rel.value in first_line and "(" + unit_after + ")" in first_line),
            "label_ok": bool(mname in label and "(" + unit_after + ")" in label)}

"""Executes abstract operation histories (spec/trajectory) on REAL evo trajectory objects and
abstracts what the public API returns (alpha).  Used by the C08/C04/C11/C14/C16 drivers."""
import copy
import math

import numpy as np

import geom

OFF = [99999, 99999, 99999]

# TrajData.tla (kept in sync by the driver's sanity run: the model prints them)
REF = [(1, (0, 0, 0)), (7, (1, 0, 0)), (12, (1, 2, 0)), (18, (1, 2, 3))]
REF_STAMPS = [0, 1, 3, 4]
G0 = (9, (2, -1, 4))


class Gamma:
    def __init__(self, unit=1.0, clock=None):
        self.u = float(unit)
        self.clock = clock or geom.Clock(0, 1)

    def pos(self, v):
        return self.u * np.array(v, dtype=float)

    def apos(self, x):
        q = np.asarray(x, dtype=float) / self.u
        r = np.round(q)
        if not np.all(np.isfinite(q)) or np.max(np.abs(q - r)) > 1e-6:
            return list(OFF)
        return [int(v) for v in r]

    def mat(self, g, s=1):
        # the SAME array object is handed out for the same transformation within one history: a caller may reuse its matrix
        key = (g["r"], tuple(g["p"]), s)
        cache = self.__dict__.setdefault("_mats", {})
        if key not in cache:
            m = np.eye(4)
            m[:3, :3] = s * geom.o24_matrix(geom.rot(g["r"]))
            m[:3, 3] = self.pos(g["p"])
            cache[key] = m
        return cache[key]


def pmul(a, b):
    ra, rb = geom.o24_matrix(geom.rot(a[0])), geom.o24_matrix(geom.rot(b[0]))
    r = ra @ rb
    p = np.array(a[1]) + ra @ np.array(b[1])
    return (geom.alpha_rot_index(r), tuple(int(v) for v in p))


def est_init():
    g = geom.o24_matrix(geom.rot(G0[0]))
    out = []
    for r, p in REF:
        rr = g @ geom.o24_matrix(geom.rot(r))
        pp = 2 * (g @ np.array(p)) + np.array(G0[1])
        out.append((geom.alpha_rot_index(rr), tuple(int(v) for v in pp)))
    return out


def build(poses, stamps, built, gm, kind):
    from evo.core.trajectory import PosePath3D, PoseTrajectory3D
    kw = {}
    if built == "se3":
        kw["poses_se3"] = [geom.se3(geom.o24_matrix(geom.rot(r)), gm.pos(p)) for r, p in poses]
    else:
        kw["positions_xyz"] = np.array([gm.pos(p) for r, p in poses])
        kw["orientations_quat_wxyz"] = np.array([geom.quat_wxyz(geom.rot(r)) for r, p in poses])
    if kind == "traj":
        return PoseTrajectory3D(timestamps=gm.clock.g(list(stamps)), **kw)
    return PosePath3D(**kw)


def read_pos(t, gm):
    return [gm.apos(p) for p in np.array(t.positions_xyz)]


def read_quat(t):
    out = []
    for q in np.array(t.orientations_quat_wxyz):
        if abs(np.linalg.norm(q) - 1.0) > 1e-9:
            out.append(-1)
        else:
            out.append(geom.alpha_rot_index(geom.quat_to_matrix(q)))
    return out


def read_se3(t, gm):
    ps = t.poses_se3
    posm, rotm = [], []
    for p in ps:
        p = np.asarray(p)
        ok = p.shape == (4, 4) and np.array_equal(p[3], [0, 0, 0, 1])
        posm.append(gm.apos(p[:3, 3]) if ok else list(OFF))
        rotm.append(geom.alpha_rot_index(p[:3, :3]) if ok else -1)
    return posm, rotm


def sq_units(x, u):
    """alpha for a length: its square in lattice units as an integer (-1 = off the lattice)"""
    v = (float(x) / u) ** 2
    r = round(v)
    if not math.isfinite(v) or abs(v - r) > 1e-6 * max(1.0, v):
        return -1
    return int(r)


_FLIP = [0]


def apply_op(t, op, gm, ref_builder):
    """returns (t, out, obs)"""
    from evo.core import trajectory
    from evo.core.geometry import GeometryException
    name = op["name"]
    obs = {}
    try:
        if name == "ReadPos":
            obs["pos"] = read_pos(t, gm)
        elif name == "ReadQuat":
            obs["rotq"] = read_quat(t)
        elif name == "ReadSe3":
            obs["posm"], obs["rotm"] = read_se3(t, gm)
        elif name == "ReadDerived":
            d = np.asarray(t.distances, dtype=float)
            obs["d2"] = [sq_units(d[k + 1] - d[k], gm.u) for k in range(len(d) - 1)]
            pl = float(t.path_length)
            obs["plen"] = bool(abs(pl - (d[-1] if len(d) else 0.0)) <= 1e-9 * max(1.0, abs(pl)) and len(d) == t.num_poses and d[0] == 0)
        elif name == "DeepCopy":
            t = copy.deepcopy(t)
        elif name == "TransformL":
            # every other call spells the flags out; the propagation switch belongs to right-multiplication and has no effect here
            _FLIP[0] ^= 1
            if _FLIP[0]:
                t.transform(gm.mat(op["g"], op["s"]), right_mul=False, propagate=True)
            else:
                t.transform(gm.mat(op["g"], op["s"]))
        elif name == "TransformR":
            t.transform(gm.mat(op["g"]), right_mul=True)
        elif name == "TransformProp":
            t.transform(gm.mat(op["g"]), right_mul=True, propagate=True)
        elif name == "Scale":
            t.scale(float(op["s"]))
        elif name == "Reduce":
            t.reduce_to_ids([i - 1 for i in op["ids"]])
        elif name == "Downsample":
            t.downsample(op["n"])
        elif name == "MotionFilter":
            t.motion_filter(0.5 * op["dh"] * gm.u, float(op["a"]), True)
        elif name == "Crop":
            t.reduce_to_time_range(float(gm.clock.g(op["lo"])), float(gm.clock.g(op["hi"])))
        elif name == "Align":
            ref = ref_builder()
            mode = op["mode"]
            if mode == "origin":
                obs["ret"] = t.align_origin(ref)
            else:
                obs["ret"] = t.align(ref, correct_scale=(mode == "sim"), correct_only_scale=(mode == "scale"))
        elif name == "Project":
            t.project(trajectory.Plane(op["plane"]))
            obs["planar"] = planar(t, op["plane"])
        else:
            raise ValueError("unknown op " + name)
        return t, "ok", obs
    except trajectory.TrajectoryException:
        return t, "TrajectoryException", obs
    except GeometryException:
        return t, "GeometryException", obs
    except Exception as e:  # noqa: BLE001  any other exception is an outcome P has to judge
        return t, type(e).__name__, obs


def final_obs(t, gm, plane=None):
    """all views, derived quantities and check() of the object; if the object is so broken that its own
    accessors raise, that is reported as an observation (n = -1), which P rejects"""
    try:
        return _final_obs(t, gm)
    except Exception as e:  # noqa: BLE001
        return {"n": -1, "pos": [], "rotq": [], "posm": [], "rotm": [], "stamps": [], "check": False, "d2": [],
                "plen": False, "sp2": [], "xview": False, "error": type(e).__name__ + ": " + str(e)[:100]}


def _final_obs(t, gm):
    obs = {"n": int(t.num_poses)}
    obs["pos"] = read_pos(t, gm)
    obs["rotq"] = read_quat(t)
    obs["posm"], obs["rotm"] = read_se3(t, gm)
    obs["xview"] = xview(t)
    if hasattr(t, "timestamps"):
        st = [gm.clock.a(x) for x in t.timestamps]
        obs["stamps"] = [(-1 if v is None else v) for v in st]
    else:
        obs["stamps"] = []
    try:
        obs["check"] = bool(t.check()[0])
    except Exception:
        obs["check"] = False
    d = np.asarray(t.distances, dtype=float)
    obs["d2"] = [sq_units(d[k + 1] - d[k], gm.u) for k in range(len(d) - 1)]
    pl = float(t.path_length)
    obs["plen"] = bool(abs(pl - (d[-1] if len(d) else 0.0)) <= 1e-9 * max(1.0, abs(pl)) and len(d) == t.num_poses and d[0] == 0)
    if hasattr(t, "timestamps") and t.num_poses >= 2:
        try:
            sp = np.asarray(t.speeds, dtype=float)
            ts = np.asarray(t.timestamps, dtype=float)
            obs["sp2"] = [sq_units(sp[k] * (ts[k + 1] - ts[k]), gm.u) for k in range(len(sp))]
        except Exception:
            obs["sp2"] = [-2]
    else:
        obs["sp2"] = []
    return obs


def xview(t, tol=1e-9):
    """positions, unit quaternions (up to sign) and pose matrices describe the same poses (raw floats)"""
    pos, quat, ps = np.asarray(t.positions_xyz), np.asarray(t.orientations_quat_wxyz), t.poses_se3
    if not (len(pos) == len(quat) == len(ps)):
        return False
    for k in range(len(ps)):
        p = np.asarray(ps[k])
        scale = max(1.0, float(np.max(np.abs(p[:3, 3]))))
        if np.max(np.abs(p[:3, 3] - pos[k])) > tol * scale:
            return False
        if abs(np.linalg.norm(quat[k]) - 1.0) > 1e-9 or np.max(np.abs(geom.quat_to_matrix(quat[k]) - p[:3, :3])) > 1e-7:
            return False
    return True


def planar(t, plane):
    """every pose in the plane: zero normal coordinate, orientation a pure rotation about the normal
    (looks at the matrices project() has just produced; does not force any cache)"""
    ax = {"xy": 2, "xz": 1, "yz": 0}[plane]
    ps = t._poses_se3 if hasattr(t, "_poses_se3") else t.poses_se3
    return all(p[ax, 3] == 0 and geom_about_axis(p[:3, :3], ax) for p in ps)


def geom_about_axis(m, ax, tol=1e-9):
    """is m a pure rotation about coordinate axis ax"""
    m = np.asarray(m, dtype=float)
    if abs(m[ax, ax] - 1) > tol:
        return False
    for k in range(3):
        if k != ax and (abs(m[ax, k]) > tol or abs(m[k, ax]) > tol):
            return False
    return abs(np.linalg.det(m) - 1) < 1e-9 and np.max(np.abs(m.T @ m - np.eye(3))) < 1e-9


def run_history(case, gm, ref_built="se3"):
    """case: {built, kind, h:[ops]} -> trace events"""
    kind, built = case["kind"], case["built"]
    t = build(est_init(), REF_STAMPS, built, gm, kind)

    def ref_builder():
        return build(REF, REF_STAMPS, ref_built, gm, kind)
    ev = []
    plane = None
    for op in case["h"]:
        t, out, obs = apply_op(t, op, gm, ref_builder)
        obs.pop("ret", None)
        if op["name"] == "Project" and out != "ok":
            obs["planar"] = True
        ev.append({"op": op, "out": out, "obs": obs})
    caches = [hasattr(t, "_poses_se3"), hasattr(t, "_positions_xyz"), hasattr(t, "_orientations_quat_wxyz")]
    ev.append({"op": {"name": "Final"}, "out": "ok", "obs": final_obs(t, gm, plane)})
    return ev, caches

"""Independent serializer / parser of the published file conventions (gamma of spec/fileio) and executors for C06/C07."""
import io
import json
import math
import os
import shutil
import struct
import tempfile

import numpy as np

import core
import geom

DELIM = {"tum": " ", "kitti": " ", "euroc": ","}
SPELL = ["{:d}.{:02d}5", "{:d}.{:02d}25e0", "+{:d}.{:02d}5", "{:d}{:02d}.5E-2"]


def tok_text(fmt, r, c, style=0):
    """decimal literal of token (row r, column c); all values distinct"""
    if fmt == "euroc" and c == 0:
        return str(1403636579000000000 + 1000000 * r + 7)       # nanoseconds
    if style == 3:
        return "{:d}{:02d}.5E-2".format(r, c)
    return SPELL[style % 3].format(r, c)


def tok_value(fmt, r, c, style=0):
    return float(tok_text(fmt, r, c, style))


def render(fmt, f, style=0):
    d = DELIM[fmt]
    out, r = [], 0
    for ln in f["lines"]:
        k = ln["k"]
        if k == "comment":
            out.append("# a comment, with 1 2 3 numbers")
            continue
        if k == "blank":
            out.append("")
            continue
        r += 1
        fields = [tok_text(fmt, r, c, style) for c in range(ln["w"])]
        if k == "nonnum":
            fields[ln["col"]] = "abc"
        line = d.join(fields)
        if k == "trail":
            line += d
        out.append(line)
    nl = "\r\n" if f["crlf"] else "\n"
    data = (nl.join(out) + nl).encode("utf-8") if out else b""
    return (b"\xef\xbb\xbf" if f["bom"] else b"") + data


def exec_read(job):
    from evo.tools import file_interface as fi
    n, c, seed = job
    fmt, f = c["fmt"], c["f"]
    style = (n + seed) % 4
    d = tempfile.mkdtemp(prefix="rd_", dir=core.workdir())
    path = os.path.join(d, "in.txt")
    try:
        reader = {"tum": fi.read_tum_trajectory_file, "kitti": fi.read_kitti_poses_file, "euroc": fi.read_euroc_csv_trajectory}[fmt]
        if f["src"] != "handle" and n % 3 == 0:
            # history: the same path held another (valid, two-row) file that this process has read already
            w = {"tum": 8, "kitti": 12, "euroc": 8}[fmt]
            sep = "," if fmt == "euroc" else " "
            with open(path, "w") as fh:
                for r_ in range(2):
                    fh.write(sep.join(repr(1.0 if (fmt != "kitti" and j == 7) or (fmt == "kitti" and j in (0, 5, 10)) else 0.0) if j else
                                      (str(10 ** 9 * (r_ + 1)) if fmt == "euroc" else repr(float(r_ + 1))) for j in range(w)) + "\n")
            try:
                reader(path)
            except Exception:  # noqa: BLE001
                pass
        with open(path, "wb") as fh:
            fh.write(render(fmt, f, style))
        try:
            if f["src"] == "handle":
                with open(path, encoding="utf-8", newline=None) as fh:
                    t = reader(fh)
            else:
                t = reader(path if n % 2 else __import__("pathlib").Path(path))
        except fi.FileInterfaceException:
            return {"out": "FileInterfaceException"}
        except Exception as e:  # noqa: BLE001
            return {"out": type(e).__name__}
        ndata = len([ln for ln in f["lines"] if ln["k"] != "comment"])
        maxw = max([ln.get("w", 0) for ln in f["lines"]] + [0])
        lookup = {}
        for r in range(1, ndata + 2):
            for col in range(maxw + 1):
                lookup[tok_value(fmt, r, col, style)] = 100 * r + col
        rows, ns_ok = [], True
        if fmt == "kitti":
            for p in t.poses_se3:
                p = np.asarray(p)
                rows.append([lookup.get(float(p[i, j]), -1) for i in range(3) for j in range(4)])
                if not np.array_equal(p[3], [0, 0, 0, 1]):
                    rows[-1][0] = -2
        else:
            pos, q, st = np.asarray(t.positions_xyz), np.asarray(t.orientations_quat_wxyz), np.asarray(t.timestamps)
            for k in range(t.num_poses):
                if fmt == "euroc":
                    ns = tok_value(fmt, k + 1, 0, style)
                    sid = 100 * (k + 1) if float(st[k]) == ns / 1e9 else lookup.get(float(st[k]), -1)
                    ns_ok = ns_ok and float(st[k]) == ns / 1e9
                else:
                    sid = lookup.get(float(st[k]), -1)
                rows.append([sid] + [lookup.get(float(v), -1) for v in pos[k]] + [lookup.get(float(v), -1) for v in q[k]])
        rot_ok = True
        if fmt != "kitti":
            for k in range(t.num_poses):
                qk = np.asarray(q[k], dtype=float)
                nq = float(np.dot(qk, qk))
                if np.all(np.isfinite(qk)) and 1e-200 < nq < 1e200:
                    want = geom.quat_to_matrix(qk / math.sqrt(nq))
                    got = np.asarray(t.poses_se3[k])[:3, :3]
                    if not np.all(np.isfinite(got)) or np.max(np.abs(got - want)) > 1e-9:
                        rot_ok = False
        return {"out": "ok", "rows": rows, "ns_to_s": ns_ok, "rot_ok": bool(rot_ok)}
    finally:
        shutil.rmtree(d, ignore_errors=True)


def _transform_matrix(cls):
    R = geom.o24_matrix((2, -3, -1))
    t = np.array([1.5, -2.25, 1024.0])
    m = np.eye(4)
    m[:3, 3] = t
    if cls == "se3":
        m[:3, :3] = R
    elif cls == "sim3":
        m[:3, :3] = 2.0 * R
    elif cls == "sim3small":
        m[:3, :3] = 0.125 * R
    elif cls == "sim3milli":
        m[:3, :3] = 2.0 ** -10 * R                  # a millimetre-to-metre sized similarity: valid
    elif cls == "sim3kilo":
        m[:3, :3] = 1024.0 * R
    elif cls == "shearmilli":                       # sheared / non-uniformly scaled blocks at small and large overall scale
        m[:3, :3] = 2.0 ** -10 * R
        m[0, 0] += 2.0 ** -12
    elif cls == "shearkilo":
        m[:3, :3] = 1024.0 * R
        m[0, 0] += 16.0
    elif cls == "anisomilli":
        m[:3, :3] = np.diag([1.0, 2.0, 1.0]) @ R * 2.0 ** -10
    elif cls == "reflection":
        m[:3, :3] = geom.o24_matrix((2, 1, 3))
    elif cls == "shear":
        m[:3, :3] = R
        m[0, 0] += 0.01
    elif cls == "aniso":
        m[:3, :3] = np.diag([1.0, 2.0, 1.0]) @ R
    elif cls == "badrow":
        m[:3, :3] = R
        m[3] = [0, 0, 0.5, 1]
    elif cls == "zero":
        m = np.zeros((4, 4))
    elif cls == "shape3x3":
        m = R.copy()
    return m


def exec_transform(job):
    from evo.tools import file_interface as fi
    import warnings
    n, c, seed = job
    d = tempfile.mkdtemp(prefix="tf_", dir=core.workdir())
    try:
        enc, cls = c["enc"], c["cls"]
        if enc == "json":
            q = geom.quat_wxyz((2, -3, -1))
            scale = {"se3": None, "se3int": None, "sim3": 2.0, "sim3small": 0.125, "sim3milli": 2.0 ** -10, "sim3kilo": 1024.0, "negscale": -2.0, "zeroscale": 0}[cls]
            data = {"x": 1.5, "y": -2.25, "z": 1024.0, "qw": q[0], "qx": q[1], "qy": q[2], "qz": q[3]}
            if scale is not None:
                data["scale"] = scale
            if cls == "se3int":             # a transform spelled with integer literals only (identity rotation, integer translation)
                data = {"x": 1, "y": -2, "z": 1024, "qw": 1, "qx": 0, "qy": 0, "qz": 0}
                expected = np.eye(4)
                expected[:3, 3] = [1.0, -2.0, 1024.0]
            path = os.path.join(d, core.name_form("t", ".json", n // 3))
            if n % 2:           # the keys of a JSON object have no order
                data = dict(sorted(data.items(), reverse=bool(n % 4 == 1)))
            json.dump(data, open(path, "w"))
            if cls != "se3int":
                expected = np.eye(4)
                expected[:3, :3] = (scale if scale is not None else 1.0) * geom.o24_matrix((2, -3, -1))
                expected[:3, 3] = [1.5, -2.25, 1024.0]
        else:
            expected = _transform_matrix(cls)
            path = os.path.join(d, core.name_form("t", ".npy" if enc == "npy" else ".txt", n // 3))
            if enc == "npy":
                with open(path, "wb") as fh:        # np.save(<name>) would append ".npy" to other names
                    np.save(fh, expected)
            else:
                np.savetxt(path, expected)
        try:
            with warnings.catch_warnings():
                warnings.simplefilter("ignore")
                m = fi.load_transform(path)
        except fi.FileInterfaceException:
            return {"out": "FileInterfaceException", "same": False}
        except Exception as e:  # noqa: BLE001
            return {"out": type(e).__name__, "same": False}
        return {"out": "ok", "same": bool(m.shape == expected.shape and np.max(np.abs(m - expected)) <= 1e-12 * 1024)}
    finally:
        shutil.rmtree(d, ignore_errors=True)



def exec_cli_bag(job):
    """evo_traj bag in.bag /est --ref /gt --save_as_bag: the exported ROS1 bag holds, per topic, the poses, the frame id and the
    stamps (within 1 ns) of the input; read back with rosbags directly (independent of evo's reader)"""
    import glob
    import random
    from fractions import Fraction
    import cli
    from evo.core.trajectory import PoseTrajectory3D
    from evo.tools import file_interface as fi
    from rosbags.rosbag1 import Reader, Writer
    from rosbags.typesys import Stores, get_typestore
    n, c, seed = job
    N = c["n"] // 2
    rr = random.Random(seed * 7919 + n)
    d = tempfile.mkdtemp(prefix="cb_", dir=core.workdir())
    try:
        frames = {"/est": "odom_é", "/gt": "map"}
        src = {}
        with Writer(os.path.join(d, "in.bag")) as wr:
            for k, topic in enumerate(("/est", "/gt")):
                st = np.array([1.5e9 + 0.125 * i + rr.random() * 1e-3 for i in range(N)]) if n % 2 else \
                    np.array(sorted(2.0 ** (22 + (i + k) % 3) * (1.0 + rr.random()) for i in range(N)))
                pos = np.array([[rr.uniform(-1e3, 1e3), rr.uniform(-1, 1), 1.0 / 3.0 + i] for i in range(N)])
                quat = np.array([geom.quat_wxyz(geom.O24[(n + i + 5 * k) % 24]) for i in range(N)])
                t = PoseTrajectory3D(positions_xyz=pos, orientations_quat_wxyz=quat, timestamps=st)
                fi.write_bag_trajectory(wr, t, topic, frame_id=frames[topic])
                src[topic] = (st, pos, quat)
        r = cli.run_cli("traj", ["bag", "in.bag", "/est", "--ref", "/gt", "--save_as_bag", "--no_warnings"], d)
        outs = [f for f in glob.glob(os.path.join(d, "*.bag")) if os.path.basename(f) != "in.bag"]
        if r["code"] != 0 or r["exc"] != "none" or len(outs) != 1:
            return {"out": "exit%s %s bags=%d" % (r["code"], r["exc"], len(outs)), "n": 0, "lost": 0, "type_same": False}
        ts = get_typestore(Stores.ROS1_NOETIC)
        got = {}
        with Reader(outs[0]) as rd:
            for conn, _, raw in rd.messages():
                m = ts.deserialize_ros1(raw, conn.msgtype)
                got.setdefault(conn.topic, []).append(m)
        lost, total, frames_ok = 0, 0, set(got) == set(src)
        for topic, (st, pos, quat) in src.items():
            msgs = got.get(topic, [])
            total += len(msgs)
            for i, m in enumerate(msgs[:len(st)]):
                p, q, h = m.pose.position, m.pose.orientation, m.header
                if [bits(p.x), bits(p.y), bits(p.z)] != [bits(v) for v in pos[i]]:
                    lost += 1
                if [bits(q.w), bits(q.x), bits(q.y), bits(q.z)] != [bits(v) for v in quat[i]]:
                    lost += 1
                if abs(Fraction(h.stamp.sec) + Fraction(h.stamp.nanosec, 10 ** 9) - Fraction(float(st[i]))) > Fraction(1, 10 ** 9):
                    lost += 1
                if h.frame_id != frames[topic]:
                    frames_ok = False
        return {"out": "ok", "n": int(total), "lost": int(lost), "type_same": bool(frames_ok)}
    except Exception as e:  # noqa: BLE001
        return {"out": type(e).__name__ + ":" + str(e)[:80], "n": 0, "lost": 0, "type_same": False}
    finally:
        shutil.rmtree(d, ignore_errors=True)

# ---- adversarial float64 values for the lossless round trips
def specials():
    return [0.1 + 0.2, 1.0 / 3.0, math.pi, -math.e, 1e300, -1e300, 1e-300, 5e-324, -0.0, 0.0, 1.5e9 + 1e-9, 1500000000.123456789,
            1403636579.763555527, float(np.nextafter(1.0, 2.0)), float(np.nextafter(1.0, 0.0)), 123456789.12345679, -1e-5, 2.0 ** 53 + 2,
            0.30000000000000004, 3.0e-10, 7.1e-12, 9007199254740993.0, 1e22, 1e23, 4.35, 0.1, 2.675, 1e-9, 1.0000000000000002e-9,
            0.5000000000000001, 65504.0, 1.7976931348623157e308, 2.2250738585072014e-308, 8.5e-7, 12345.678901234567]


def bits(x):
    return struct.pack("<d", float(x))


@core.alt_tmpdir
def exec_write(job):
    """files evo writes, parsed by the independent parser of the conventions"""
    from evo.core.trajectory import PosePath3D, PoseTrajectory3D
    from evo.tools import file_interface as fi
    import pathlib
    n, c, seed = job
    vals = specials()
    N = c["n"]
    rng = np.random.RandomState(seed * 131 + n)
    d = tempfile.mkdtemp(prefix="wr_", dir=core.workdir())
    try:
        stamps = np.array([1.5e9 + 0.125 * k + (1e-9 if k else 0) for k in range(N)])
        pos = np.array([[vals[(n + 3 * k + j) % len(vals)] for j in range(3)] for k in range(N)])
        rots = [geom.O24[(n + k) % 24] for k in range(N)]
        if c["built"] == "se3":
            kw = {"poses_se3": [geom.se3(geom.o24_matrix(r), p) for r, p in zip(rots, pos)]}
        else:
            kw = {"positions_xyz": pos, "orientations_quat_wxyz": np.array([geom.quat_wxyz(r) for r in rots])}
        traj = PoseTrajectory3D(timestamps=stamps, **kw) if c["fmt"] == "tum" else PosePath3D(**kw)
        path = os.path.join(d, "out.txt")
        writer = fi.write_tum_trajectory_file if c["fmt"] == "tum" else fi.write_kitti_poses_file
        try:
            if c["src"] == "handle":
                with open(path, "w") as fh:
                    writer(fh, traj)
            else:
                writer(path if c["src"] == "path" else pathlib.Path(path), traj)
        except Exception as e:  # noqa: BLE001
            return {"out": type(e).__name__, "nrows": 0, "slots_ok": False}
        rows = [ln.split(" ") for ln in open(path).read().split("\n") if ln and not ln.startswith("#")]
        ok = all(len(r) == (8 if c["fmt"] == "tum" else 12) for r in rows)
        if ok and len(rows) == N:
            for k, r in enumerate(rows):
                f = [float(x) for x in r]
                if c["fmt"] == "tum":
                    q = np.asarray(traj.orientations_quat_wxyz)[k]
                    want = [stamps[k], *np.asarray(traj.positions_xyz)[k], q[1], q[2], q[3], q[0]]
                else:
                    want = list(np.asarray(traj.poses_se3[k])[:3, :].flatten())
                ok = ok and all(bits(a) == bits(b) for a, b in zip(f, want))
        return {"out": "ok", "nrows": len(rows), "slots_ok": bool(ok)}
    finally:
        shutil.rmtree(d, ignore_errors=True)


@core.alt_tmpdir
def exec_roundtrip(job):
    from evo.core import result
    from evo.core.trajectory import PosePath3D, PoseTrajectory3D
    from evo.tools import file_interface as fi, pandas_bridge
    n, c, seed = job
    vals = specials()
    N = c["n"]
    off = (n * 7 + seed * 13) % len(vals)
    v = lambda i: vals[(off + i) % len(vals)]  # noqa: E731
    d = tempfile.mkdtemp(prefix="rt_", dir=core.workdir())
    lost = 0

    def cmp(a, b):
        if isinstance(a, np.ndarray) and isinstance(b, np.ndarray) and a.shape != b.shape:
            return 10 ** 6              # the same data has the same shape ((1,) is not ())
        a, b = np.asarray(a, dtype=float).ravel(), np.asarray(b, dtype=float).ravel()
        if a.shape != b.shape:
            return 10 ** 6
        return sum(1 for x, y in zip(a, b) if bits(x) != bits(y))
    try:
        if c["n"] >= 3 and n % 4 == 0:
            stamps = np.arange(N, dtype=float)              # 0.0, 1.0, 2.0, ...: looks like a RangeIndex
        else:
            stamps = np.array(sorted(v(40 + k) for k in range(N)) if n % 3 else [1.5e9 + v(k) % 1 for k in range(N)])
        pos = np.array([[v(3 * k + j) for j in range(3)] for k in range(N)])
        if c["built"] == "se3":
            poses = []
            for k in range(N):
                m = np.eye(4)
                m[:3, :] = np.array([v(12 * k + i) for i in range(12)]).reshape(3, 4) if c["fmt"] in ("kitti", "res", "res_traj") and c["kind"] == "path" \
                    else np.column_stack((geom.o24_matrix(geom.O24[(n + k) % 24]), pos[k]))
                poses.append(m)
            kw = {"poses_se3": poses}
        else:
            quat = np.array([[v(4 * k + j + 50) for j in range(4)] for k in range(N)]) if c["fmt"] in ("tum", "df") \
                else np.array([geom.quat_wxyz(geom.O24[(n + k) % 24]) for k in range(N)])
            kw = {"positions_xyz": pos, "orientations_quat_wxyz": quat}
        traj = PoseTrajectory3D(timestamps=stamps, **kw) if c["kind"] == "traj" else PosePath3D(**kw)
        fmt = c["fmt"]
        type_same = True
        try:
            if fmt in ("tum", "kitti"):
                path = os.path.join(d, "rt.txt")
                w = fi.write_tum_trajectory_file if fmt == "tum" else fi.write_kitti_poses_file
                r = fi.read_tum_trajectory_file if fmt == "tum" else fi.read_kitti_poses_file
                if c["src"] == "handle":
                    buf = io.StringIO()
                    w(buf, traj)
                    buf.seek(0)
                    back = r(buf)
                else:
                    # the same path first holds OTHER content (one pose more, other values), is read, and is then rewritten: the second
                    # read must return the second content (nothing remembered per path)
                    K = min(N, 50) + 1
                    okw = {"positions_xyz": np.array([[float(k), v(k + 3), -1.5] for k in range(K)]),
                           "orientations_quat_wxyz": np.tile([1.0, 0.0, 0.0, 0.0], (K, 1))}
                    other = PoseTrajectory3D(timestamps=np.arange(K, dtype=float) + 7.0, **okw) if c["kind"] == "traj" else PosePath3D(**okw)
                    w(path, other)
                    first = r(path)
                    if first.num_poses != K:
                        lost += 1
                    dest = __import__("pathlib").Path(path) if n % 2 else path         # str and pathlib.Path destinations
                    w(dest, traj)
                    back = r(dest)
                if fmt == "tum":
                    lost += cmp(back.timestamps, traj.timestamps) + cmp(back.positions_xyz, traj.positions_xyz) + \
                        cmp(back.orientations_quat_wxyz, traj.orientations_quat_wxyz)
                else:
                    lost += cmp([np.asarray(p)[:3] for p in back.poses_se3], [np.asarray(p)[:3] for p in traj.poses_se3])
                nb = back.num_poses
            elif fmt in ("res", "res_traj"):
                earlier = result.Result()            # another result of the same process that does carry a trajectory
                earlier.add_trajectory("earlier", PosePath3D(poses_se3=[np.eye(4), np.eye(4)]))
                res = result.Result()
                res.info = {"title": "APE äöü ☃ 中文", "est_name": "ést", "label": "l (m)"}
                res.stats = {"rmse": v(1), "mean": v(2), "max": v(3), "sse": v(4)}
                res.np_arrays = {"error_array": np.array([v(k) for k in range(N + 2)]), "timestamps": stamps.copy()}
                if fmt == "res_traj":
                    # a longer trajectory first, then the (shorter) one under test: buffers must not leak between archive members
                    longer = PoseTrajectory3D(positions_xyz=np.array([[v(k), v(k + 1), v(k + 2)] for k in range(N + 3)]),
                                              orientations_quat_wxyz=np.tile([1.0, 0, 0, 0], (N + 3, 1)),
                                              timestamps=np.array([1.5e9 + k for k in range(N + 3)]))
                    res.add_trajectory("a_longer_first", longer)
                    res.add_trajectory("est", traj)
                    res.add_trajectory("z_path", PosePath3D(poses_se3=[np.eye(4)]))
                path = os.path.join(d, core.name_form("r", ".zip", n // 2))
                if c["src"] == "handle":
                    with open(path, "wb") as fh:
                        fi.save_res_file(fh, res)
                    with open(path, "rb") as fh:
                        back = fi.load_res_file(fh, load_trajectories=True)
                else:
                    fi.save_res_file(path, res)
                    back = fi.load_res_file(path, load_trajectories=True)
                type_same = back.info == res.info and set(back.stats) == set(res.stats) and set(back.np_arrays) == set(res.np_arrays)
                type_same = type_same and set(back.trajectories) == ({"a_longer_first", "est", "z_path"} if fmt == "res_traj" else set())
                for k in res.stats:
                    lost += cmp([back.stats.get(k, float("nan"))], [res.stats[k]])
                for k in res.np_arrays:
                    lost += cmp(back.np_arrays.get(k, []), res.np_arrays[k])
                nb = N
                if fmt == "res_traj":
                    bt = back.trajectories.get("est")
                    bl, bp = back.trajectories.get("a_longer_first"), back.trajectories.get("z_path")
                    if bl is None or bl.num_poses != N + 3 or bp is None or bp.num_poses != 1:
                        type_same = False
                    if bt is None or type(bt) is not type(traj):
                        type_same = False
                    else:
                        nb = bt.num_poses
                        if c["kind"] == "traj":
                            lost += cmp(bt.timestamps, traj.timestamps) + cmp(bt.positions_xyz, traj.positions_xyz) + \
                                cmp(bt.orientations_quat_wxyz, traj.orientations_quat_wxyz)
                        else:
                            lost += cmp([np.asarray(p)[:3] for p in bt.poses_se3], [np.asarray(p)[:3] for p in traj.poses_se3])
            elif fmt == "df":
                df = pandas_bridge.trajectory_to_df(traj)
                back = pandas_bridge.df_to_trajectory(df)
                type_same = type(back) is type(traj)
                lost += cmp(back.positions_xyz, traj.positions_xyz) + cmp(back.orientations_quat_wxyz, traj.orientations_quat_wxyz)
                if c["kind"] == "traj" and type_same:
                    lost += cmp(back.timestamps, traj.timestamps)
                nb = back.num_poses
            else:   # ROS1 bag
                from fractions import Fraction
                from rosbags.rosbag1 import Reader, Writer
                path = os.path.join(d, "t.bag")
                # stamps a ROS time can hold (0 <= t < 2^32 s): epoch stamps with sub-microsecond fractions, times since boot around
                # 1e5 s and in [2^22, 2^25) s (where one float64 step is about a nanosecond), small stamps with 17 digits
                import random
                rr = random.Random(seed * 100003 + n)
                fam = n % 4
                if fam == 0:
                    st = np.array([1.5e9 + 0.125 * k + rr.random() * 1e-3 for k in range(N)])
                elif fam == 1:
                    st = np.array(sorted(2.0 ** (22 + (n // 4 + k) % 3) * (1.0 + rr.random()) for k in range(N)))
                elif fam == 2:
                    st = np.array([1e5 * (k + 1) + rr.random() for k in range(N)])
                else:
                    st = np.array([float(k) + rr.random() for k in range(N)])
                traj.timestamps = st
                with Writer(path) as wr:
                    fi.write_bag_trajectory(wr, traj, "/pose", frame_id="mäp")
                with Reader(path) as rd:
                    back = fi.read_bag_trajectory(rd, "/pose")
                lost += cmp(back.positions_xyz, traj.positions_xyz) + cmp(back.orientations_quat_wxyz, traj.orientations_quat_wxyz)
                type_same = back.meta.get("frame_id") == "mäp"
                for a, b in zip(back.timestamps, st):
                    if abs(Fraction(float(a)) - Fraction(float(b))) > Fraction(1, 10 ** 9):
                        lost += 1
                nb = back.num_poses
                if fam == 1:        # a longer trajectory with stamps where one float64 step is 0.9 .. 3.7 ns
                    st2 = np.array(sorted(2.0 ** (22 + k % 3) * (1.0 + rr.random()) for k in range(96)))
                    t2 = PoseTrajectory3D(positions_xyz=np.zeros((96, 3)), orientations_quat_wxyz=np.tile([1.0, 0, 0, 0], (96, 1)), timestamps=st2)
                    path2 = os.path.join(d, "t2.bag")
                    with Writer(path2) as wr:
                        fi.write_bag_trajectory(wr, t2, "/pose")
                    with Reader(path2) as rd:
                        back2 = fi.read_bag_trajectory(rd, "/pose")
                    if back2.num_poses != 96:
                        lost += 1
                    for a, b in zip(back2.timestamps, st2):
                        if abs(Fraction(float(a)) - Fraction(float(b))) > Fraction(1, 10 ** 9):
                            lost += 1
        except Exception as e:  # noqa: BLE001
            return {"out": type(e).__name__ + ":" + str(e)[:80], "n": 0, "lost": 0, "type_same": False}
        return {"out": "ok", "n": int(nb), "lost": int(lost), "type_same": bool(type_same)}
    finally:
        shutil.rmtree(d, ignore_errors=True)

"""./check Cxx [--tier quick|thorough] [--replay FILE] [--selftest]
exit 0: property held on everything explored; exit 1 + VIOLATION line: an observed execution
of the real code is not a behaviour of the property specification; exit 2: machinery failure."""
import argparse
import importlib
import os
import sys
import traceback

sys.path.insert(0, os.path.dirname(os.path.abspath(__file__)))
import core  # noqa: E402


def main():
    ap = argparse.ArgumentParser()
    ap.add_argument("prop")
    ap.add_argument("--tier", default=os.environ.get("VERIF_TIER", "quick"), choices=["quick", "thorough"])
    ap.add_argument("--replay")
    ap.add_argument("--selftest", action="store_true")
    args = ap.parse_args()
    seed = int(os.environ.get("VERIF_SEED", "0") or 0)
    pid = args.prop.upper()
    core.workdir()  # redirects HOME before evo is imported anywhere
    try:
        mod = importlib.import_module("drivers." + pid.lower())
    except ImportError:
        traceback.print_exc()
        print("no driver for " + pid)
        return 2
    rep = core.Report(pid, args.tier, seed)
    try:
        if args.selftest:
            ok = mod.selftest(rep)
            print("SELFTEST %s %s" % (pid, "ok" if ok else "FAILED"))
            return 0 if ok else 2
        if args.replay:
            return mod.replay(rep, args.replay)
        import shutil
        shutil.rmtree(os.path.join(core.OUT, "replays", pid), ignore_errors=True)   # replay files of earlier runs are stale
        mod.run(rep, args.tier, seed)
        return rep.finish()
    except core.MachineryError as e:
        print("MACHINERY-FAILURE %s: %s" % (pid, e))
        return 2
    except Exception:
        traceback.print_exc()
        print("MACHINERY-FAILURE %s: unexpected exception in harness" % pid)
        return 2
    finally:
        core.cleanup()


if __name__ == "__main__":
    sys.exit(main())

"""gamma / alpha for the exact domains of DESIGN.md section 3."""
import itertools
import math

import numpy as np

# ---- O24: proper signed permutations r = (r1,r2,r3): R e_i = sgn(r_i) e_|r_i|
def _det(r):
    m = o24_matrix(r)
    return int(round(np.linalg.det(m)))


def o24_matrix(r):
    m = np.zeros((3, 3))
    for i, v in enumerate(r):
        m[abs(v) - 1, i] = 1.0 if v > 0 else -1.0
    return m


SIGNED_PERMS = [tuple(s * p for s, p in zip(signs, perm))
                for perm in itertools.permutations((1, 2, 3))
                for signs in itertools.product((1, -1), repeat=3)]
O24 = [r for r in SIGNED_PERMS if _det(r) == 1]
IMPROPER = [r for r in SIGNED_PERMS if _det(r) == -1]
O24_MATS = {r: o24_matrix(r) for r in SIGNED_PERMS}
IDENT = (1, 2, 3)


def alpha_rot(m, tol=1e-7):
    """nearest signed permutation, or None (offgrid)"""
    m = np.asarray(m, dtype=float)
    if m.shape != (3, 3) or not np.all(np.isfinite(m)):
        return None
    r = []
    for i in range(3):
        col = m[:, i]
        k = int(np.argmax(np.abs(col)))
        r.append((k + 1) * (1 if col[k] > 0 else -1))
    r = tuple(r)
    if sorted(abs(v) for v in r) != [1, 2, 3]:
        return None
    if np.max(np.abs(o24_matrix(r) - m)) > tol:
        return None
    return list(r)


def quat_wxyz(r):
    """unit quaternion (w,x,y,z) of an O24 element (sign arbitrary), computed independently of evo"""
    m = o24_matrix(r)
    t = np.trace(m)
    if t > 0:
        s = math.sqrt(t + 1.0) * 2
        w = 0.25 * s
        x = (m[2, 1] - m[1, 2]) / s
        y = (m[0, 2] - m[2, 0]) / s
        z = (m[1, 0] - m[0, 1]) / s
    elif m[0, 0] > m[1, 1] and m[0, 0] > m[2, 2]:
        s = math.sqrt(1.0 + m[0, 0] - m[1, 1] - m[2, 2]) * 2
        w = (m[2, 1] - m[1, 2]) / s
        x = 0.25 * s
        y = (m[0, 1] + m[1, 0]) / s
        z = (m[0, 2] + m[2, 0]) / s
    elif m[1, 1] > m[2, 2]:
        s = math.sqrt(1.0 + m[1, 1] - m[0, 0] - m[2, 2]) * 2
        w = (m[0, 2] - m[2, 0]) / s
        x = (m[0, 1] + m[1, 0]) / s
        y = 0.25 * s
        z = (m[1, 2] + m[2, 1]) / s
    else:
        s = math.sqrt(1.0 + m[2, 2] - m[0, 0] - m[1, 1]) * 2
        w = (m[1, 0] - m[0, 1]) / s
        x = (m[0, 2] + m[2, 0]) / s
        y = (m[1, 2] + m[2, 1]) / s
        z = 0.25 * s
    return np.array([w, x, y, z])


def quat_to_matrix(q):
    """independent quaternion (w,x,y,z) -> 3x3"""
    w, x, y, z = [float(v) for v in q]
    n = w * w + x * x + y * y + z * z
    s = 2.0 / n
    return np.array([
        [1 - s * (y * y + z * z), s * (x * y - z * w), s * (x * z + y * w)],
        [s * (x * y + z * w), 1 - s * (x * x + z * z), s * (y * z - x * w)],
        [s * (x * z - y * w), s * (y * z + x * w), 1 - s * (x * x + y * y)]])


# ---- planar headings: rotation by k degrees about axis (0=x,1=y,2=z), built independently of evo
def heading_matrix(axis, kdeg):
    a = math.radians(kdeg)
    c, s = math.cos(a), math.sin(a)
    if kdeg % 90 == 0:
        c, s = float(round(c)), float(round(s))
    if axis == 2:
        return np.array([[c, -s, 0], [s, c, 0], [0, 0, 1.0]])
    if axis == 1:
        return np.array([[c, 0, s], [0, 1.0, 0], [-s, 0, c]])
    return np.array([[1.0, 0, 0], [0, c, -s], [0, s, c]])


def alpha_heading(m, axis, tol_deg=1e-7, tol_off=1e-9):
    """integer heading in -179..180 of a pure rotation about `axis`, or None"""
    m = np.asarray(m, dtype=float)
    i, j = [(1, 2), (2, 0), (0, 1)][axis]
    off = [m[axis, i], m[axis, j], m[i, axis], m[j, axis]]
    if max(abs(v) for v in off) > tol_off or abs(m[axis, axis] - 1) > tol_off:
        return None
    ang = math.degrees(math.atan2(m[j, i], m[i, i]))
    k = round(ang)
    if abs(ang - k) > tol_deg:
        return None
    if abs(m[i, i] - m[j, j]) > tol_off or abs(m[j, i] + m[i, j]) > tol_off:
        return None
    if k == -180:
        k = 180
    return int(k)


# ---- positions on a dyadic lattice
class Lattice:
    def __init__(self, unit=1.0, origin=(0.0, 0.0, 0.0)):
        self.u = float(unit)
        self.o = np.array(origin, dtype=float)

    def g(self, v):
        return self.o + self.u * np.array(v, dtype=float)

    def a(self, x, tol=1e-7):
        q = (np.asarray(x, dtype=float) - self.o) / self.u
        r = np.round(q)
        if not np.all(np.isfinite(q)) or np.max(np.abs(q - r)) > tol:
            return None
        return [int(v) for v in r]


LATTICES = [Lattice(1.0), Lattice(0.25), Lattice(1024.0), Lattice(1.0, (5e5, 5e6, 256.0)), Lattice(0.125, (-4096.0, 8192.0, 0.0))]


# ---- timestamps t0 + dt*k (exact in float64)
class Clock:
    def __init__(self, t0=0.0, dt=1.0):
        self.t0, self.dt = float(t0), float(dt)

    def g(self, k):
        return self.t0 + self.dt * np.asarray(k, dtype=float)

    def a(self, t):
        q = (float(t) - self.t0) / self.dt
        r = round(q)
        return int(r) if q == r else None


CLOCKS = [Clock(0, 1), Clock(0, 0.125), Clock(1.5e9, 0.125), Clock(1.5e9, 2.0 ** -10), Clock(1.5e9 + 0.5, 0.25), Clock(-1, 1), Clock(-0.5, 0.125)]


def se3(rot, pos):
    m = np.eye(4)
    m[:3, :3] = rot
    m[:3, 3] = pos
    return m


def snapshot(traj):
    """bit-exact snapshot of every array an object holds, WITHOUT forcing caches and without relying on attribute names:
    every ndarray-valued and every list-of-ndarray-valued attribute (whatever it is called), plus the meta dict"""
    d = {}
    for k, v in list(vars(traj).items()):
        if isinstance(v, np.ndarray):
            d[k] = v.tobytes() if v.dtype != object else repr(v.tolist())
        elif isinstance(v, (list, tuple)) and v and all(isinstance(x, np.ndarray) for x in v):
            d[k] = b"".join(np.asarray(x).tobytes() for x in v)
            d["_n"] = len(v)
    d["meta"] = repr(sorted(traj.meta.items())) if isinstance(getattr(traj, "meta", None), dict) else None
    return d


def same_snapshot(a, b):
    """no array that both snapshots hold differs (a cache that appeared or disappeared is not a modification of the object)"""
    return all(a[k] == b[k] for k in a if k in b and k != "_n")


def frac(x, maxden=1 << 20, tol=1e-9, abstol=0.0):
    """alpha for rationals: (num, den) or None"""
    from fractions import Fraction
    if not math.isfinite(x):
        return None
    f = Fraction(x).limit_denominator(maxden)
    if abs(float(f) - x) > max(tol * max(1.0, abs(x)), abstol):
        return None
    if abs(f.numerator) >= 2 ** 31 - 1:         # TLC integers are 32 bit
        return None
    return [f.numerator, f.denominator]


# index order shared with spec/lib/ExactGeom.tla (tools/gen_exactgeom.py): 1..24 proper, 25..48 improper
ALL48 = O24 + IMPROPER
ROT_INDEX = {r: k + 1 for k, r in enumerate(ALL48)}


def rot(k):
    """signed permutation of ExactGeom rotation index k (1..48)"""
    return ALL48[k - 1]


def alpha_rot_index(m, tol=1e-7):
    """ExactGeom index of a 3x3 matrix, -1 if it is not (within tol) a signed permutation matrix"""
    r = alpha_rot(m, tol)
    return ROT_INDEX[tuple(r)] if r is not None else -1

#!/bin/sh
# tools/try_raw.sh <patch.diff> <Cxx> [tier]: run a check against a scratch worktree of /repo HEAD with the patch applied (nothing in /repo changes)
patch="$1"; prop="$2"; tier="${3:-quick}"
wt=$(mktemp -d /tmp/tryraw.XXXXXX); rmdir "$wt"
git -C /repo worktree add -q --detach "$wt" HEAD || exit 2
( cd "$wt" && git apply "$patch" ) || { echo "patch does not apply"; git -C /repo worktree remove --force "$wt"; exit 2; }
out=$(mktemp -d /tmp/tryout.XXXXXX)
cd /verif && PYTHONPATH="$wt" VERIF_OUT="$out" ./check "$prop" --tier "$tier" 2>&1 | grep "VIOLATION\|MACHINERY\|$tier:" | head -${HEAD:-3} | cut -c1-330
git -C /repo worktree remove --force "$wt"; rm -rf "$out"

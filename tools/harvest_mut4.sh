#!/bin/sh
# copy round-4 seeded changes written by sub-agents under /tmp/mut4_Cxx/mutants into /verif/.work/mut4_raw/Cxx
for d in /tmp/mut4_C*/mutants; do
  [ -d "$d" ] || continue
  p=$(echo "$d" | sed -E 's#/tmp/mut4_(C[0-9]+)/mutants#\1#')
  mkdir -p /verif/.work/mut4_raw/$p
  cp -r "$d"/* /verif/.work/mut4_raw/$p/ 2>/dev/null
done
ls -d /verif/.work/mut4_raw/*/m* 2>/dev/null | wc -l

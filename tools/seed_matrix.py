#!/usr/bin/env python3
"""tools/seed_matrix.py [--jobs N] : for every seeded change under /tmp/mut_Cxx/mutants (or /verif/seeded), confirm it independently in a
fresh scratch worktree of /repo HEAD (existing tests unchanged, demo fails with / passes without), run the named checks against that
worktree (PYTHONPATH puts the worktree before the editable install; evidence/replays redirected), and write /verif/seeded/<id>/."""
import json
import os
import re
import shutil
import subprocess
import sys
from concurrent.futures import ThreadPoolExecutor

V = os.path.dirname(os.path.dirname(os.path.abspath(__file__)))
EXTRA = {  # other checks that are expected to notice the change as well
    "C01_m1": ["C09"], "C02_m2": ["C10"], "C03_m1": ["C04"], "C03_m2": ["C04"], "C04_m1": ["C03"], "C04_m2": ["C16", "C08"], "C04_m3": ["C01"], "C05_m3": ["C08"],
    "C08_m1": ["C14"], "C08_m2": ["C16"], "C08_m3": ["C03"], "C09_m1": ["C01"], "C11_m2": ["C15"], "C11_m3": ["C08"], "C14_m1": ["C08"],
    "C14_m2": ["C08"], "C14_m3": ["C08"], "C15_m3": ["C11"], "C16_m1": ["C08"], "C16_m2": ["C13"], "C20_m3": ["C16"],
    # second round
    "C01_r2m1": ["C12"], "C01_r2m2": ["C11", "C15"], "C01_r2m3": ["C11", "C08"], "C02_r2m2": ["C10"], "C04_r2m3": ["C03"], "C05_r2m1": ["C16"],
    "C07_r2m1": ["C09"], "C08_r2m2": ["C11"], "C08_r2m3": ["C04", "C01"], "C11_r2m3": ["C15", "C08"], "C12_r2m1": ["C02"], "C15_r2m2": ["C11"],
    "C16_r2m1": ["C05"], "C16_r2m3": ["C20"], "C13_r2m2": ["C16"],
    # third round
    "C03_r3m2": ["C08"], "C05_r3m3": ["C01"], "C07_r3m3": ["C15"], "C08_r3m2": ["C03", "C04"], "C08_r3m3": ["C11"], "C11_r3m1": ["C08"],
    "C11_r3m2": ["C01", "C02"], "C15_r3m2": ["C03"],
    # fourth round
    "C08_r5m2": ["C04"], "C08_r5m3": ["C09"], "C01_r5m1": ["C04"], "C01_r5m2": ["C05"], "C01_r5m3": ["C03"],
    # sixth round
    "C01_r6m1": ["C18"], "C01_r6m2": ["C04"], "C15_r6m3": ["C05"], "C07_r6m3": ["C06"],
    "C05_r4m3": ["C15"], "C07_r4m3": ["C06"], "C11_r4m2": ["C15"], "C14_r4m2": ["C15"], "C15_r4m2": ["C05"], "C04_r4m2": ["C16"],
}


def sh(cmd, cwd=None, env=None, timeout=3600):
    p = subprocess.run(cmd, shell=True, cwd=cwd, env=env, stdout=subprocess.PIPE, stderr=subprocess.STDOUT, text=True, timeout=timeout)
    return p.returncode, p.stdout


def one(item):
    sid, src = item
    prop = sid[:3]
    wt = "/tmp/seedwt_" + sid
    out = {"id": sid, "property": prop}
    sh("git -C /repo worktree remove --force %s; rm -rf %s" % (wt, wt))
    rc, o = sh("git -C /repo worktree add -q --detach %s HEAD" % wt)
    try:
        rc, o = sh("git apply --check %s/patch.diff" % src, cwd=wt)
        if rc != 0:
            out["status"] = "patch does not apply to /repo HEAD: " + o.strip()[:200]
            return out
        env = dict(os.environ, PYTHONPATH=wt, HOME=wt + "/.home", MPLBACKEND="Agg")
        os.makedirs(wt + "/.home", exist_ok=True)
        # some demonstrations locate the tree relative to their own file (<tree>/mutants/<name>/demo.py): run them from there
        inwt = os.path.join(wt, "mutants", sid)
        os.makedirs(inwt, exist_ok=True)
        for f in ("patch.diff", "demo.py"):
            shutil.copy(os.path.join(src, f), inwt)
        src_meta = src
        src = inwt
        rc_clean, _ = sh("/venv/bin/python %s/demo.py" % src, cwd=wt, env=env, timeout=1800)
        sh("git apply %s/patch.diff" % src, cwd=wt)
        _, t = sh("/venv/bin/python -m pytest -q -p no:cacheprovider --timeout=900 --continue-on-collection-errors 2>&1 | tail -1", cwd=wt, env=env)
        rc_mut, demo_out = sh("/venv/bin/python %s/demo.py" % src, cwd=wt, env=env, timeout=1800)
        out.update({"tests_with_change": t.strip(), "demo_exit_without_change": rc_clean, "demo_exit_with_change": rc_mut})
        confirmed = rc_clean == 0 and rc_mut == 1 and "82 passed" in t
        out["confirmed"] = confirmed
        detected = {}
        for chk in [prop] + EXTRA.get(sid, []) + [c for c in os.environ.get("SEED_EXTRA_CHECKS", "").split(",") if c and c != prop]:
            outdir = "/tmp/seedout_%s_%s" % (sid, chk)
            env2 = dict(os.environ, PYTHONPATH=wt, VERIF_OUT=outdir)
            rc, o = sh("cd %s && ./check %s --tier quick" % (V, chk), env=env2, timeout=3600)
            lines = [ln for ln in o.splitlines() if ln.startswith(("VIOLATION", "MACHINERY", chk + " quick"))]
            nviol = re.search(r"violations=(\d+)", o)
            detected[chk] = {"exit": rc, "violations": int(nviol.group(1)) if nviol else None,
                             "first": next((ln[:300] for ln in lines if ln.startswith("VIOLATION")), None)}
            shutil.rmtree(outdir, ignore_errors=True)
        out["checks"] = detected
        out["status"] = "ok"
        out["src"] = src_meta
        return out
    finally:
        sh("git -C /repo worktree remove --force %s; rm -rf %s" % (wt, wt))


def main():
    jobs = 4
    if "--jobs" in sys.argv:
        jobs = int(sys.argv[sys.argv.index("--jobs") + 1])
    only = [a for a in sys.argv[1:] if re.match(r"C\d\d", a)]
    rnd = 6 if "--round6" in sys.argv else 5 if "--round5" in sys.argv else 4 if "--round4" in sys.argv else 3 if "--round3" in sys.argv else 2 if "--round2" in sys.argv else 1
    items = []
    for i in range(1, 21):
        for k in (1, 2, 3):
            sid = {1: "C%02d_m%d", 2: "C%02d_r2m%d", 3: "C%02d_r3m%d", 4: "C%02d_r4m%d", 5: "C%02d_r5m%d", 6: "C%02d_r6m%d"}[rnd] % (i, k)
            src = {1: "/tmp/mut_C%02d/mutants/m%d", 2: "/tmp/mut2_C%02d/mutants/m%d", 3: "/tmp/mut3_C%02d/mutants/m%d",
                   4: V + "/.work/mut4_raw/C%02d/m%d", 5: V + "/.work/mut5_raw/C%02d/m%d", 6: V + "/.work/mut6_raw/C%02d/m%d"}[rnd] % (i, k)
            kept = os.path.join(V, "seeded", sid)
            if os.path.exists(os.path.join(kept, "patch.diff")):
                src = kept
            if os.path.exists(os.path.join(src, "patch.diff")) and (not only or sid[:3] in only or sid in only):
                items.append((sid, src))
    with ThreadPoolExecutor(jobs) as ex:
        for res, (sid, src) in zip(ex.map(one, items), items):
            src = res.get("src", src)
            print(json.dumps(res)[:600], flush=True)
            if res.get("confirmed"):
                dst = os.path.join(V, "seeded", sid)
                os.makedirs(dst, exist_ok=True)
                if os.path.abspath(src) != os.path.abspath(dst):
                    shutil.copy(os.path.join(src, "patch.diff"), dst)
                    shutil.copy(os.path.join(src, "demo.py"), dst)
                meta = {}
                try:
                    meta = json.load(open(os.path.join(src, "meta.json")))
                except Exception:
                    pass
                meta.update({"property": res["property"], "confirmed_against": sh("git -C /repo rev-parse --short HEAD")[1].strip(),
                             "what_was_run": "fresh scratch worktree of /repo HEAD: demo.py without the change (exit %s), git apply patch.diff, "
                                             "existing test suite (%s), demo.py with the change (exit %s); then ./check <id> --tier quick with "
                                             "PYTHONPATH=<worktree>" % (res["demo_exit_without_change"], res["tests_with_change"], res["demo_exit_with_change"]),
                             "detected_by": {k: v for k, v in res["checks"].items()}})
                json.dump(meta, open(os.path.join(dst, "meta.json"), "w"), indent=1)


if __name__ == "__main__":
    main()

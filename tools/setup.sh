#!/bin/sh
# offline setup: nothing to build (TLA+ specs are interpreted by TLC, the harness is Python); sanity-check the tools
set -e
cd "$(dirname "$0")/.."
mkdir -p .work evidence
java -version >/dev/null 2>&1
test -f /opt/veriftools/tla/tla2tools.jar
/venv/bin/python -c "import numpy, evo" 2>/dev/null
echo "setup ok"

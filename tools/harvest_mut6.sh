#!/bin/sh
# copy round-6 seeded changes written by sub-agents under /tmp/mut6_Cxx/mutants into /verif/.work/mut6_raw/Cxx
for d in /tmp/mut6_C*/mutants; do
  [ -d "$d" ] || continue
  p=$(echo "$d" | sed -E 's#/tmp/mut6_(C[0-9]+)/mutants#\1#')
  mkdir -p /verif/.work/mut6_raw/$p
  cp -r "$d"/* /verif/.work/mut6_raw/$p/ 2>/dev/null
done
ls -d /verif/.work/mut6_raw/*/m* 2>/dev/null | wc -l

#!/bin/sh
# tools/tlc.sh <args>: TLC with the shared library (spec/lib) on the module path
m=$(mktemp -d /tmp/tlcmeta.XXXXXX)
java -XX:+UseParallelGC -Xss64m -Xmx8g -Djava.io.tmpdir="$m" -DTLA-Library=$(ls -d /verif/spec/*/ | tr "\n" ":") -cp /opt/veriftools/tla/tla2tools.jar:/opt/veriftools/tla/CommunityModules-deps.jar tlc2.TLC -metadir "$m" -noGenerateSpecTE "$@"
rc=$?; rm -rf "$m"; exit $rc

#!/bin/sh
# copy round-5 seeded changes written by sub-agents under /tmp/mut5_Cxx/mutants into /verif/.work/mut5_raw/Cxx
for d in /tmp/mut5_C*/mutants; do
  [ -d "$d" ] || continue
  p=$(echo "$d" | sed -E 's#/tmp/mut5_(C[0-9]+)/mutants#\1#')
  mkdir -p /verif/.work/mut5_raw/$p
  cp -r "$d"/* /verif/.work/mut5_raw/$p/ 2>/dev/null
done
ls -d /verif/.work/mut5_raw/*/m* 2>/dev/null | wc -l

#!/usr/bin/env python3
"""tools/benign_matrix.py [--jobs N] [--checks C01,C02,...] [ids...] : for every property-preserving change under /tmp/ben_Cxx/benign
(or /verif/benign), apply it in a fresh scratch worktree of /repo HEAD, confirm the existing tests still pass, and run the quick tier of
EVERY check against that worktree (PYTHONPATH puts the worktree first; evidence/replays redirected).  Any exit code other than 0 is
a false alarm (or a change that is not benign after all): both are printed for triage.  Results go to /verif/benign/<id>/result.json."""
import json
import os
import re
import shutil
import subprocess
import sys
from concurrent.futures import ThreadPoolExecutor

V = os.path.dirname(os.path.dirname(os.path.abspath(__file__)))
ALL = ["C%02d" % i for i in range(1, 21)]


def sh(cmd, cwd=None, env=None, timeout=3600):
    p = subprocess.run(cmd, shell=True, cwd=cwd, env=env, stdout=subprocess.PIPE, stderr=subprocess.STDOUT, text=True, timeout=timeout)
    return p.returncode, p.stdout


def one(item):
    bid, src, checks = item
    wt = "/tmp/benwt_" + bid
    out = {"id": bid}
    sh("git -C /repo worktree remove --force %s; rm -rf %s" % (wt, wt))
    sh("git -C /repo worktree add -q --detach %s HEAD" % wt)
    try:
        rc, o = sh("git apply %s/patch.diff" % src, cwd=wt)
        if rc != 0:
            out["status"] = "patch does not apply: " + o.strip()[:200]
            return out
        env = dict(os.environ, PYTHONPATH=wt, HOME=wt + "/.home", MPLBACKEND="Agg")
        os.makedirs(wt + "/.home", exist_ok=True)
        _, t = sh("/venv/bin/python -m pytest -q -p no:cacheprovider --timeout=900 --continue-on-collection-errors 2>&1 | tail -1", cwd=wt, env=env)
        out["tests_with_change"] = t.strip()
        out["tests_ok"] = "82 passed" in t and "1 failed" in t
        res = {}
        for chk in checks:
            outdir = "/tmp/benout_%s_%s" % (bid, chk)
            env2 = dict(os.environ, PYTHONPATH=wt, VERIF_OUT=outdir)
            rc, o = sh("cd %s && ./check %s --tier quick" % (V, chk), env=env2, timeout=3600)
            nviol = re.search(r"violations=(\d+)", o)
            ndrift = re.search(r"drift=(\d+)", o)
            lines = [ln[:400] for ln in o.splitlines() if ln.startswith(("VIOLATION", "MACHINERY", "Traceback", "MODEL-DRIFT"))]
            res[chk] = {"exit": rc, "violations": int(nviol.group(1)) if nviol else None, "drift": int(ndrift.group(1)) if ndrift else None}
            if rc != 0:
                res[chk]["lines"] = lines[:4]
                res[chk]["tail"] = o.strip().splitlines()[-6:]
                keep = os.path.join(V, ".work", "benign_alarms", "%s_%s" % (bid, chk))
                shutil.rmtree(keep, ignore_errors=True)
                if os.path.isdir(os.path.join(outdir, "replays")):
                    os.makedirs(os.path.dirname(keep), exist_ok=True)
                    shutil.copytree(os.path.join(outdir, "replays"), keep)
            shutil.rmtree(outdir, ignore_errors=True)
        out["checks"] = res
        out["status"] = "ok"
        return out
    finally:
        sh("git -C /repo worktree remove --force %s; rm -rf %s" % (wt, wt))


def main():
    jobs = 3
    if "--jobs" in sys.argv:
        jobs = int(sys.argv[sys.argv.index("--jobs") + 1])
    checks = ALL
    if "--checks" in sys.argv:
        checks = sys.argv[sys.argv.index("--checks") + 1].split(",")
    only = [a for a in sys.argv[1:] if re.match(r"C\d\d", a) and "," not in a]
    items = []
    series = "b"
    if "--series" in sys.argv:
        series = sys.argv[sys.argv.index("--series") + 1]          # b: first round (/tmp/ben_Cxx), c: incidental-detail round (/tmp/ben2_Cxx)
    for i in range(1, 21):
        for k in (1, 2, 3, 4):
            bid = "C%02d_%s%d" % (i, series, k)
            src = ("/tmp/ben_C%02d/benign/b%d" if series == "b" else "/tmp/ben2_C%02d/benign/b%d") % (i, k)
            kept = os.path.join(V, "benign", bid)
            if not os.path.exists(os.path.join(src, "patch.diff")) and os.path.exists(os.path.join(kept, "patch.diff")):
                src = kept
            if os.path.exists(os.path.join(src, "patch.diff")) and (not only or bid[:3] in only or bid in only):
                items.append((bid, src, checks))
    with ThreadPoolExecutor(jobs) as ex:
        for res, (bid, src, _) in zip(ex.map(one, items), items):
            alarms = {k: v for k, v in res.get("checks", {}).items() if v["exit"] != 0}
            print(json.dumps({"id": bid, "status": res.get("status"), "tests": res.get("tests_with_change"), "alarms": alarms})[:3000], flush=True)
            dst = os.path.join(V, "benign", bid)
            os.makedirs(dst, exist_ok=True)
            for f in ("patch.diff", "why.md"):
                if os.path.exists(os.path.join(src, f)) and os.path.abspath(src) != os.path.abspath(dst):
                    shutil.copy(os.path.join(src, f), dst)
            old = {}
            try:
                old = json.load(open(os.path.join(dst, "result.json")))
            except Exception:
                pass
            merged = dict(old.get("checks", {}))
            merged.update(res.get("checks", {}))
            res["checks"] = merged
            res["against"] = sh("git -C /repo rev-parse --short HEAD")[1].strip()
            json.dump(res, open(os.path.join(dst, "result.json"), "w"), indent=1)


if __name__ == "__main__":
    main()

#!/bin/sh
# copy property-preserving changes written by sub-agents into /verif/benign: /tmp/ben_Cxx/benign/bK -> Cxx_bK, /tmp/ben2_Cxx/benign/bK -> Cxx_cK
for d in /tmp/ben_C*/benign/b*/ /tmp/ben2_C*/benign/b*/; do
  [ -f "$d/patch.diff" ] || continue
  case "$d" in /tmp/ben2_*) s=c;; *) s=b;; esac
  id=$(echo "$d" | sed -E "s#/tmp/ben2?_(C[0-9]+)/benign/b([0-9]+)/#\1_${s}\2#")
  mkdir -p /verif/benign/$id
  cp "$d/patch.diff" /verif/benign/$id/ 2>/dev/null
  [ -f "$d/why.md" ] && cp "$d/why.md" /verif/benign/$id/
done
ls /verif/benign | wc -l

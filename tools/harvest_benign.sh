#!/bin/sh
# copy property-preserving changes written by sub-agents under /tmp/ben_Cxx/benign/bK into /verif/benign/Cxx_bK
for d in /tmp/ben_C*/benign/b*/; do
  [ -f "$d/patch.diff" ] || continue
  id=$(echo "$d" | sed -E 's#/tmp/ben_(C[0-9]+)/benign/b([0-9]+)/#\1_b\2#')
  mkdir -p /verif/benign/$id
  cp "$d/patch.diff" /verif/benign/$id/ 2>/dev/null
  [ -f "$d/why.md" ] && cp "$d/why.md" /verif/benign/$id/
done
ls /verif/benign | wc -l

#!/bin/sh
# tools/verify_mutant.sh <worktree> <k>: confirm a seeded change independently (tests unchanged, demo FAIL with / PASS without)
wt="$1"; k="$2"; m="$wt/mutants/m$k"
cd "$wt" || exit 2
mkdir -p .home
git checkout -q -- evo 2>/dev/null
git apply --check "$m/patch.diff" || { echo "$wt m$k: PATCH-DOES-NOT-APPLY"; exit 1; }
run() { PYTHONPATH="$wt" HOME="$wt/.home" MPLBACKEND=Agg timeout 900 /venv/bin/python "$@"; }
run "$m/demo.py" >/dev/null 2>&1; clean=$?
git apply "$m/patch.diff"
tests=$(run -m pytest -q -p no:cacheprovider --timeout=900 --continue-on-collection-errors 2>&1 | tail -1)
run "$m/demo.py" >/dev/null 2>&1; mut=$?
git checkout -q -- evo
echo "$wt m$k: demo_clean_exit=$clean demo_mutated_exit=$mut tests='$tests'"

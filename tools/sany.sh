#!/bin/sh
# tools/sany.sh <file.tla>: parse with the shared library on the path
exec java -DTLA-Library=$(ls -d /verif/spec/*/ | tr "\n" ":") -cp /opt/veriftools/tla/tla2tools.jar:/opt/veriftools/tla/CommunityModules-deps.jar tla2sany.SANY "$@"

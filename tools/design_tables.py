#!/usr/bin/env python3
"""tools/design_tables.py round3|benign : print the markdown tables of DESIGN.md sections 14.2 / 15 from seeded/*/meta.json and
benign/*/result.json (so that the document states what the matrices actually recorded)."""
import glob
import json
import os
import sys

V = os.path.dirname(os.path.dirname(os.path.abspath(__file__)))


def clip(s, n=170):
    s = " ".join(str(s).replace("|", "/").split())
    return s if len(s) <= n else s[:n - 3] + "..."


def round3():
    print("| change | needs | caught by |")
    print("|---|---|---|")
    for f in sorted(glob.glob(os.path.join(V, "seeded", "*_r3m*", "meta.json"))):
        m = json.load(open(f))
        sid = f.split("/")[-2]
        det = [k for k, v in m.get("detected_by", {}).items() if v.get("exit") == 1]
        print("| %s %s | %s | %s |" % (sid, clip(m.get("summary", "")), clip(m.get("needs", "")), ", ".join(det) or "-"))


def round4():
    print("| change | needs | caught by |")
    print("|---|---|---|")
    for f in sorted(glob.glob(os.path.join(V, "seeded", "*_r4m*", "meta.json"))):
        m = json.load(open(f))
        sid = f.split("/")[-2]
        det = [k for k, v in m.get("detected_by", {}).items() if v.get("exit") == 1]
        print("| %s %s | %s | %s |" % (sid, clip(m.get("summary", "")), clip(m.get("needs", "")), ", ".join(det) or "-"))


def round5():
    print("| change | needs | caught by |")
    print("|---|---|---|")
    for f in sorted(glob.glob(os.path.join(V, "seeded", "*_r5m*", "meta.json"))):
        m = json.load(open(f))
        sid = f.split("/")[-2]
        det = [k for k, v in m.get("detected_by", {}).items() if v.get("exit") == 1]
        print("| %s %s | %s | %s |" % (sid, clip(m.get("summary", "")), clip(m.get("needs", "")), ", ".join(det) or "-"))


def round6():
    print("| change | needs | caught by |")
    print("|---|---|---|")
    for f in sorted(glob.glob(os.path.join(V, "seeded", "*_r6m*", "meta.json"))):
        m = json.load(open(f))
        sid = f.split("/")[-2]
        det = [k for k, v in m.get("detected_by", {}).items() if v.get("exit") == 1]
        print("| %s %s | %s | %s |" % (sid, clip(m.get("summary", "")), clip(m.get("needs", "")), ", ".join(det) or "-"))


def benign():
    print("| change | what it does | checks run | alarms |")
    print("|---|---|---|---|")
    for f in sorted(glob.glob(os.path.join(V, "benign", "*", "result.json"))):
        r = json.load(open(f))
        bid = f.split("/")[-2]
        why = os.path.join(os.path.dirname(f), "why.md")
        first = ""
        if os.path.exists(why):
            lines = [ln.strip() for ln in open(why).read().splitlines() if ln.strip() and not ln.startswith("#")]
            first = lines[0] if lines else ""
        al = ["%s(exit %s)" % (k, v["exit"]) for k, v in sorted(r.get("checks", {}).items()) if v.get("exit") != 0]
        print("| %s | %s | %d | %s |" % (bid, clip(first, 200), len(r.get("checks", {})), ", ".join(al) or "none"))


if __name__ == "__main__":
    {"round3": round3, "round4": round4, "round5": round5, "round6": round6, "benign": benign}[sys.argv[1]]()

#!/bin/sh
# tools/try_mutant.sh <patch.diff> <Cxx> [tier]  -- apply a seeded change to /repo, run the check, undo it
patch="$1"; prop="$2"; tier="${3:-quick}"
cd /repo || exit 2
git diff --quiet || { echo "/repo has local changes"; exit 2; }
git apply "$patch" || { echo "patch does not apply"; exit 2; }
cd /verif && ./check "$prop" --tier "$tier" 2>&1 | grep -v "SyntaxWarning\|Homogeneous Transformation\|Return affine\|Return matrix to" | tail -${TAIL:-8}
rc=$?
git -C /repo checkout -- .
git -C /repo status --short | head -3

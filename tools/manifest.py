#!/usr/bin/env python3
"""Regenerates /verif/MANIFEST.json from the table below (only built checks are claimed)."""
import json
import os

V = os.path.dirname(os.path.dirname(os.path.abspath(__file__)))
IDS = [json.loads(l)["id"] for l in open(os.path.join(V, "properties.jsonl"))]

CHECKS = {
 "C05": dict(
   technique="TLA+ model Sync.tla (TLC: M => P on all small timestamp constellations) + replay of every TLC-generated case into associate_trajectories + TLC validation of the recorded traces against SyncProps.tla",
   text="TLC enumerates every pair of strictly increasing stamp vectors in the bound with max_diff/offset, checks that the implementation-shaped model satisfies the declarative property, and every enumerated case plus seeded random larger ones is executed by the real code (both construction kinds, five dyadic clocks incl. epoch offsets, different cache histories) and judged by the TLA+ property in TLC.",
   note="timestamps/max_diff/offset on dyadic grids (exact in float64); ties left open as the statement leaves them; 5000-stamp inputs only via random traces",
   ref="5 C05"),
 "C19": dict(
   technique="TLA+ model SettingsFS.tla (TLC: all interleavings of 2-3 starting processes x crash at every FS step) + trace conformance of real evo processes stepped primitive by primitive (every crash point, TLC-simulated schedules) + P on the observed disk state after every primitive",
   text="The write protocol is model checked exhaustively (atomic variant satisfies, pre-fix variant refuted); real evo processes are run with their FS primitives on ~/.evo gated by the harness: killed at every step of init/upgrade/reset/set/merge followed by fresh starts, and interleaved according to schedules TLC simulates; the bytes of settings.json are classified after every primitive and judged by the TLA+ property; the primitive sequences are validated against the model.",
   note="kill = between two Python-level FS primitives; close of a buffered document modelled as two partial writes; exhaustive interleaving claim rests on TLC(M) + conformance(code ~ M)",
   ref="5 C19"),
 "C17": dict(
   technique="TLA+ model Overwrite.tla (TLC enumerates output site x path kind x confirmation x existing targets x answers, checks M => P) + execution of every case on the real writers / in-process CLIs with input() patched + TLC validation of the recorded file/prompt observations against OverwriteProps.tla",
   text="The configuration space of the property is finite; TLC enumerates it from the model of the confirmation protocol and every behaviourally distinct case is executed on the real code in a scratch directory (files hashed before/after, prompts recorded with the set of targets already changed, new files re-read with the matching reader); the TLA+ property judges each observation. The thorough tier covers every writer and every output option of evo_ape/rpe/traj/res/config generate.",
   note="prompts attributed to targets via evo's own 'exists, overwrite?' log record (fallback: order); quick tier: all 7 library sites + 6 CLI sites; ROS bag outputs (timestamp-named, never pre-existing) not covered",
   ref="5 C17"),
}


def main():
    checks = []
    for pid in IDS:
        if pid not in CHECKS:
            continue
        c = CHECKS[pid]
        checks.append({
            "property_id": pid,
            "quick_cmd": "./check %s --tier quick" % pid,
            "thorough_cmd": "./check %s --tier thorough" % pid,
            "evidence_file": "/verif/evidence/%s.json" % pid,
            "replay_cmd_template": "./check %s --replay {path}" % pid,
            "engine": "tlc",
            "level_claimed": {"category": c.get("level", "model_checking"), "text": c["text"], "design_ref": c["ref"]},
            "level_note": c["note"],
            "technique": c["technique"],
        })
    m = {
        "version": 1,
        "setup_cmd": "cd /verif && ./tools/setup.sh",
        "hooks": {"guard": "EVO_VERIF",
                  "enable": "no source hooks exist: the harness wraps FS primitives / input() / stage functions at run time in its own processes",
                  "baseline_off_cmd": "cd /repo && /venv/bin/python -m pytest -ra -q -p no:cacheprovider --timeout=900 --continue-on-collection-errors",
                  "source_commits": [], "add_only": True},
        "engines": [{"name": "tlc", "path": "/verif/harness/core.py", "serves_properties": sorted(CHECKS),
                     "kind_free_text": "TLC 1.8 on the TLA+ specifications under /verif/spec: exhaustive model checking of M (M => P), case generation from M, and batch validation of traces recorded from the real code against P"}],
        "checks": checks,
        "not_applicable": [{"property_id": i, "reason": "check under construction in this session; not claimed until its quick check passes on the tree and rejects corrupted traces"}
                           for i in IDS if i not in CHECKS],
        "notes": "All checks: ./check Cxx --tier quick|thorough. KNOWN_FINDINGS.txt lists recorded findings and fixed defects. seeded/ holds confirmed breaking changes used to test the checks.",
    }
    json.dump(m, open(os.path.join(V, "MANIFEST.json"), "w"), indent=1)
    print("claimed:", [c["property_id"] for c in checks])


if __name__ == "__main__":
    main()
